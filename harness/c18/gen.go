package main

// Generators: one setter call = the current section with one or several fields replaced by
// in-domain, boundary and out-of-domain values.

import (
	"fmt"
	"math"
	"math/rand"
	"sort"
	"strings"
	"time"

	"github.com/tikv/pd/pkg/typeutil"
	"github.com/tikv/pd/server"
	"github.com/tikv/pd/server/config"
)

// call is one configuration update through an exported setter of *server.Server.
type call struct {
	Setter string   `json:"setter"`
	Muts   []string `json:"mutated"`         // field=class, sorted; class in|out:<why>|edge:<why>
	Args   string   `json:"args"`            // human readable payload
	Shape  string   `json:"shape,omitempty"` // extra input classification (label calls)

	sched *config.ScheduleConfig
	payld map[string]interface{} // schedulers-payload to attach (display only)
	repl  *config.ReplicationConfig
	pd    *config.PDServerConfig
	lp    config.LabelPropertyConfig
	typ   string
	key   string
	val   string
	ver   string
	rm    *config.ReplicationModeConfig
}

// outOfDomain reports whether the generator put at least one value outside its stated domain.
func (c *call) outOfDomain() bool {
	for _, m := range c.Muts {
		if strings.Contains(m, "=out:") {
			return true
		}
	}
	return false
}

func (c *call) finish() *call {
	sort.Strings(c.Muts)
	switch c.Setter {
	case "SetScheduleConfig":
		c.Args = fmt.Sprintf("%+v", *c.sched)
		if c.payld != nil {
			c.Args += fmt.Sprintf(" payload=%v", c.payld)
		}
	case "SetReplicationConfig":
		c.Args = fmt.Sprintf("%+v", *c.repl)
	case "SetPDServerConfig":
		c.Args = fmt.Sprintf("%+v", *c.pd)
	case "SetLabelPropertyConfig":
		c.Args = fmt.Sprintf("%+v", c.lp)
	case "SetLabelProperty", "DeleteLabelProperty":
		c.Args = fmt.Sprintf("type=%q key=%q value=%q", c.typ, c.key, c.val)
	case "SetClusterVersion":
		c.Args = fmt.Sprintf("%q", c.ver)
	case "SetReplicationModeConfig":
		c.Args = fmt.Sprintf("%+v", *c.rm)
	}
	return c
}

// apply invokes the setter with a private deep copy of the payload (the server keeps what it is
// given; the three runs of one call must not share slices or maps).
func (c *call) apply(s *server.Server) error {
	switch c.Setter {
	case "SetScheduleConfig":
		cfg := c.sched.Clone()
		if c.payld != nil {
			cfg.SchedulersPayload = map[string]interface{}{}
			for k, v := range c.payld {
				cfg.SchedulersPayload[k] = v
			}
		}
		for i := range cfg.Schedulers {
			cfg.Schedulers[i].Args = append([]string(nil), cfg.Schedulers[i].Args...)
		}
		return s.SetScheduleConfig(*cfg)
	case "SetReplicationConfig":
		return s.SetReplicationConfig(*c.repl.Clone())
	case "SetPDServerConfig":
		return s.SetPDServerConfig(*c.pd.Clone())
	case "SetLabelPropertyConfig":
		return s.SetLabelPropertyConfig(c.lp.Clone())
	case "SetLabelProperty":
		return s.SetLabelProperty(c.typ, c.key, c.val)
	case "DeleteLabelProperty":
		return s.DeleteLabelProperty(c.typ, c.key, c.val)
	case "SetClusterVersion":
		return s.SetClusterVersion(c.ver)
	case "SetReplicationModeConfig":
		return s.SetReplicationModeConfig(*c.rm.Clone())
	}
	panic("unknown setter " + c.Setter)
}

// requested returns the section the call asks for, as a decoded JSON value, and its name; ok=false
// when the request does not determine the section on its own (label set/delete, version).
func (c *call) requested() (string, interface{}, bool) {
	switch c.Setter {
	case "SetScheduleConfig":
		return "schedule", reqSched(c.sched.Clone()), true
	case "SetReplicationConfig":
		return "replication", reqRepl(c.repl), true
	case "SetPDServerConfig":
		if c.pd.DashboardAddress == "auto" || c.pd.DashboardAddress == "none" {
			return "pd-server", reqPD(c.pd), true
		}
	case "SetLabelPropertyConfig":
		return "label-property", decode(c.lp), true
	case "SetReplicationModeConfig":
		return "replication-mode", reqRM(c.rm), true
	}
	return "", nil, false
}

type gen struct {
	rng *rand.Rand
	// running: the call is for a running bootstrapped server (other constraints apply).
	running   bool
	clientURL string
}

func (g *gen) pick(l []string) string { return l[g.rng.Intn(len(l))] }

func (g *gen) nFields() int {
	if g.rng.Intn(3) == 0 {
		return 2 + g.rng.Intn(3)
	}
	return 1
}

var labelTypes = []string{"reject-leader", "x"}
var labelKeys = []string{"zone", "host"}
var labelVals = []string{"z1", "z2"}

// next generates one call from the configuration currently served.
func (g *gen) next(s *server.Server) *call {
	switch x := g.rng.Intn(100); {
	case x < 30:
		return g.schedule(s)
	case x < 45:
		return g.replication(s)
	case x < 57:
		return g.pdServer(s)
	case x < 63:
		return g.labelConfig(s)
	case x < 77:
		return g.labelSet(s)
	case x < 87:
		return g.labelDelete(s)
	case x < 93:
		return g.version()
	default:
		return g.replicationMode(s)
	}
}

func (g *gen) uintVal() uint64 {
	switch g.rng.Intn(6) {
	case 0:
		return 0
	case 1:
		return 1
	case 2:
		return math.MaxUint64
	case 3:
		return uint64(g.rng.Intn(5000))
	case 4:
		return 1 << uint(g.rng.Intn(63))
	}
	return uint64(g.rng.Int63())
}

func (g *gen) duration() typeutil.Duration {
	l := []time.Duration{0, time.Second, 10 * time.Minute, time.Hour, 24 * time.Hour, -time.Second, 1500 * time.Millisecond, time.Duration(g.rng.Intn(100000)) * time.Second}
	return typeutil.NewDuration(l[g.rng.Intn(len(l))])
}

func (g *gen) schedule(s *server.Server) *call {
	cfg := s.GetScheduleConfig() // a clone
	c := &call{Setter: "SetScheduleConfig", sched: cfg}
	add := func(m string) { c.Muts = append(c.Muts, m) }
	for n := g.nFields(); n > 0; n-- {
		switch g.rng.Intn(16) {
		case 0, 1, 2: // space ratios
			switch g.rng.Intn(12) {
			case 0:
				cfg.HighSpaceRatio = []float64{0, 0.1, 0.5, 0.7}[g.rng.Intn(4)]
				cfg.LowSpaceRatio = cfg.HighSpaceRatio + []float64{0.05, 0.2, 0.3}[g.rng.Intn(3)]
				add("space-ratios=in")
			case 1:
				cfg.LowSpaceRatio, cfg.HighSpaceRatio = 1, 0
				add("space-ratios=in:boundary-1-0")
			case 2:
				x := []float64{0, 0.5, 0.7, 1}[g.rng.Intn(4)]
				cfg.LowSpaceRatio, cfg.HighSpaceRatio = x, x
				add("space-ratios=out:equal")
			case 3:
				cfg.LowSpaceRatio = cfg.HighSpaceRatio
				add("low-space-ratio=out:equal-to-current-high")
			case 4:
				cfg.HighSpaceRatio = cfg.LowSpaceRatio
				add("high-space-ratio=out:equal-to-current-low")
			case 5:
				cfg.LowSpaceRatio, cfg.HighSpaceRatio = 0.3, 0.6
				add("space-ratios=out:low<high")
			case 6:
				cfg.LowSpaceRatio = -1e-9
				add("low-space-ratio=out:-eps")
			case 7:
				cfg.LowSpaceRatio = 1 + 1e-9
				add("low-space-ratio=out:1+eps")
			case 8:
				cfg.HighSpaceRatio = -1e-9
				add("high-space-ratio=out:-eps")
			case 9:
				cfg.LowSpaceRatio, cfg.HighSpaceRatio = 1, 1+1e-9
				add("high-space-ratio=out:1+eps")
			case 10:
				if g.rng.Intn(2) == 0 {
					cfg.LowSpaceRatio = math.NaN()
				} else {
					cfg.HighSpaceRatio = math.NaN()
				}
				add("space-ratio=out:NaN")
			case 11:
				cfg.LowSpaceRatio = []float64{0.81, 0.9, 0.99, 1}[g.rng.Intn(4)]
				if cfg.LowSpaceRatio > cfg.HighSpaceRatio && cfg.HighSpaceRatio >= 0 {
					add("low-space-ratio=in")
				} else {
					add("low-space-ratio=out:not-above-current-high")
				}
			}
		case 3: // tolerant size ratio
			switch g.rng.Intn(8) {
			case 0:
				cfg.TolerantSizeRatio = 0
				add("tolerant-size-ratio=in:0")
			case 1, 2:
				cfg.TolerantSizeRatio = []float64{0.5, 5, 1e9, 2.5}[g.rng.Intn(4)]
				add("tolerant-size-ratio=in")
			case 3, 4:
				cfg.TolerantSizeRatio = -1e-9
				add("tolerant-size-ratio=out:-eps")
			case 5:
				cfg.TolerantSizeRatio = -1
				add("tolerant-size-ratio=out:-1")
			case 6:
				cfg.TolerantSizeRatio = math.Inf(-1)
				add("tolerant-size-ratio=out:-Inf")
			case 7:
				cfg.TolerantSizeRatio = math.NaN()
				add("tolerant-size-ratio=edge:NaN")
			}
		case 4:
			f := []*uint64{&cfg.MaxSnapshotCount, &cfg.MaxPendingPeerCount, &cfg.MaxMergeRegionSize, &cfg.MaxMergeRegionKeys,
				&cfg.LeaderScheduleLimit, &cfg.RegionScheduleLimit, &cfg.ReplicaScheduleLimit, &cfg.MergeScheduleLimit,
				&cfg.HotRegionScheduleLimit, &cfg.HotRegionCacheHitsThreshold, &cfg.SchedulerMaxWaitingOperator}
			i := g.rng.Intn(len(f))
			*f[i] = g.uintVal()
			cl := "in"
			if *f[i] == 0 {
				cl = "in:0"
			}
			add(fmt.Sprintf("uint-limit-%d=%s", i, cl))
		case 5:
			f := []*typeutil.Duration{&cfg.SplitMergeInterval, &cfg.PatrolRegionInterval, &cfg.MaxStoreDownTime}
			i := g.rng.Intn(len(f))
			*f[i] = g.duration()
			cl := "in"
			if f[i].Duration <= 0 {
				cl = "in:nonpositive"
			}
			add(fmt.Sprintf("duration-%d=%s", i, cl))
		case 6, 7:
			f := []*bool{&cfg.EnableOneWayMerge, &cfg.EnableCrossTableMerge, &cfg.EnableRemoveDownReplica, &cfg.EnableReplaceOfflineReplica,
				&cfg.EnableMakeUpReplica, &cfg.EnableRemoveExtraReplica, &cfg.EnableLocationReplacement, &cfg.EnableDebugMetrics, &cfg.EnableJointConsensus}
			i := g.rng.Intn(len(f))
			*f[i] = !*f[i]
			add(fmt.Sprintf("bool-%d=in", i))
		case 8:
			switch g.rng.Intn(3) {
			case 0:
				// anything but count/size makes pd's background statistics job panic (log.Fatal):
				// on a running server only the legal values are used
				cfg.LeaderSchedulePolicy = g.pick([]string{"count", "size"})
				cl := "in"
				if !g.running && g.rng.Intn(2) == 0 {
					cfg.LeaderSchedulePolicy, cl = g.pick([]string{"bogus", "", "Count", "SIZE"}), "out:not-count-or-size"
				}
				add("leader-schedule-policy=" + cl)
			case 1:
				cfg.RegionScoreFormulaVersion = g.pick([]string{"v1", "v2", ""})
				add("region-score-formula-version=in")
			case 2:
				cfg.StoreLimitMode = g.pick([]string{"auto", "manual", "x"})
				add("store-limit-mode=in")
			}
		case 9, 10, 11: // schedulers
			switch g.rng.Intn(8) {
			case 0, 1:
				sc := config.SchedulerConfig{Type: g.pick(registeredSchedulerTypes)}
				if g.rng.Intn(2) == 0 {
					sc.Args = []string{fmt.Sprint(1 + g.rng.Intn(3))}
				}
				if g.rng.Intn(4) == 0 {
					sc.ArgsPayload = `{"k":1}`
				}
				cfg.Schedulers = append(cfg.Schedulers, sc)
				add("schedulers=in:append-registered")
			case 2, 3:
				sc := config.SchedulerConfig{Type: g.pick(badSchedulerTypes)}
				if len(cfg.Schedulers) > 0 && g.rng.Intn(2) == 0 {
					cfg.Schedulers[g.rng.Intn(len(cfg.Schedulers))].Type = sc.Type
				} else {
					cfg.Schedulers = append(cfg.Schedulers, sc)
				}
				add("schedulers=out:unregistered-type")
			case 4:
				if len(cfg.Schedulers) > 0 {
					i := g.rng.Intn(len(cfg.Schedulers))
					cfg.Schedulers = append(cfg.Schedulers[:i:i], cfg.Schedulers[i+1:]...)
					add("schedulers=in:remove-one")
				}
			case 5:
				if len(cfg.Schedulers) > 0 {
					i := g.rng.Intn(len(cfg.Schedulers))
					cfg.Schedulers[i].Disable = !cfg.Schedulers[i].Disable
					add("schedulers=in:toggle-disable")
				}
			case 6:
				if g.rng.Intn(2) == 0 {
					cfg.Schedulers = nil
				} else {
					cfg.Schedulers = config.SchedulerConfigs{}
				}
				add("schedulers=in:none")
			case 7:
				if len(cfg.Schedulers) > 0 {
					i := g.rng.Intn(len(cfg.Schedulers))
					cfg.Schedulers[i].Args = []string{fmt.Sprint(4 + g.rng.Intn(3))}
					add("schedulers=in:change-args")
				}
			}
		case 12: // store limits
			switch g.rng.Intn(4) {
			case 0:
				cfg.StoreLimit = nil
				add("store-limit=in:nil")
			case 1:
				cfg.StoreLimit = map[uint64]config.StoreLimitConfig{}
				add("store-limit=in:empty")
			default:
				if cfg.StoreLimit == nil {
					cfg.StoreLimit = map[uint64]config.StoreLimitConfig{}
				}
				cfg.StoreLimit[uint64(1+g.rng.Intn(4))] = config.StoreLimitConfig{AddPeer: float64(g.rng.Intn(100)), RemovePeer: float64(g.rng.Intn(100)) + 0.5}
				add("store-limit=in:entry")
			}
		case 13: // deprecated items are refused
			switch g.rng.Intn(7) {
			case 0:
				cfg.DisableLearner = true
			case 1:
				cfg.DisableRemoveDownReplica = true
			case 2:
				cfg.DisableReplaceOfflineReplica = true
			case 3:
				cfg.DisableMakeUpReplica = true
			case 4:
				cfg.DisableRemoveExtraReplica = true
			case 5:
				cfg.DisableLocationReplacement = true
			case 6:
				cfg.StoreBalanceRate = 10
			}
			add("deprecated-item=out:deprecated")
		case 14:
			c.payld = map[string]interface{}{"balance-leader-scheduler": "x"}
			add("schedulers-payload=in:display-only")
		case 15:
			add("nothing=in:identity")
		}
	}
	return c.finish()
}

var goodLabels = []string{"zone", "rack", "host", "dc", "$region", "a.b/c-d_e"}
var badLabels = []string{"", "ra ck", "zone,rack", "-zone", "zone-", "z$", " zone", "rack ", "/rack", "zön"}

func (g *gen) replication(s *server.Server) *call {
	cfg := s.GetReplicationConfig()
	c := &call{Setter: "SetReplicationConfig", repl: cfg}
	add := func(m string) { c.Muts = append(c.Muts, m) }
	for n := g.nFields(); n > 0; n-- {
		switch g.rng.Intn(9) {
		case 0, 1:
			cfg.MaxReplicas = []uint64{1, 3, 5, 2, 7}[g.rng.Intn(5)]
			add("max-replicas=in")
		case 2:
			cfg.MaxReplicas = 0
			add("max-replicas=in:0")
		case 3, 4:
			k := g.rng.Intn(4)
			var l []string
			perm := g.rng.Perm(len(goodLabels))
			for i := 0; i < k; i++ {
				l = append(l, goodLabels[perm[i]])
			}
			cfg.LocationLabels = l
			if cfg.IsolationLevel == "" || inList(l, cfg.IsolationLevel) {
				add(fmt.Sprintf("location-labels=in:%d", k))
			} else {
				add("location-labels=out:drops-isolation-level")
			}
		case 5:
			l := append([]string(nil), cfg.LocationLabels...)
			at := g.rng.Intn(len(l) + 1)
			l = append(l[:at:at], append([]string{g.pick(badLabels)}, l[at:]...)...)
			cfg.LocationLabels = l
			if at > 0 && g.rng.Intn(2) == 0 {
				cfg.IsolationLevel = l[g.rng.Intn(at)] // a legal label standing before the malformed one
			}
			add(fmt.Sprintf("location-labels=out:malformed-label@%d/%d", at, len(l)))
		case 6:
			if len(cfg.LocationLabels) > 0 && g.rng.Intn(3) != 0 {
				cfg.IsolationLevel = cfg.LocationLabels[g.rng.Intn(len(cfg.LocationLabels))]
				add("isolation-level=in")
			} else if g.rng.Intn(2) == 0 {
				cfg.IsolationLevel = ""
				add("isolation-level=in:empty")
			} else {
				cfg.IsolationLevel = "not-a-label"
				add("isolation-level=out:not-a-location-label")
			}
		case 7:
			cfg.StrictlyMatchLabel = !cfg.StrictlyMatchLabel
			add("strictly-match-label=in")
		case 8:
			cfg.EnablePlacementRules = !cfg.EnablePlacementRules
			add("enable-placement-rules=in:toggle")
		}
	}
	return c.finish()
}

func (g *gen) pdServer(s *server.Server) *call {
	cfg := s.GetPDServerConfig()
	c := &call{Setter: "SetPDServerConfig", pd: cfg}
	add := func(m string) { c.Muts = append(c.Muts, m) }
	for n := g.nFields(); n > 0; n-- {
		switch g.rng.Intn(9) {
		case 0, 1:
			switch g.rng.Intn(5) {
			case 0:
				cfg.FlowRoundByDigit = 0
				add("flow-round-by-digit=in:0")
			case 1:
				cfg.FlowRoundByDigit = []int{1, 3, 5, 127, 1 << 30}[g.rng.Intn(5)]
				add("flow-round-by-digit=in")
			case 2, 3:
				cfg.FlowRoundByDigit = -1
				add("flow-round-by-digit=out:-1")
			case 4:
				cfg.FlowRoundByDigit = math.MinInt32
				add("flow-round-by-digit=out:min")
			}
		case 2:
			cfg.KeyType = g.pick([]string{"table", "raw", "txn"})
			cl := "in"
			if !g.running && g.rng.Intn(3) == 0 {
				cfg.KeyType, cl = g.pick([]string{"bogus", "", "RAW"}), "out:not-table-raw-txn"
			}
			add("key-type=" + cl)
		case 3:
			cfg.MaxResetTSGap = g.duration()
			add("max-gap-reset-ts=in")
		case 4:
			cfg.MetricStorage = g.pick([]string{"", "http://127.0.0.1:9090", "prom"})
			add("metric-storage=in")
		case 5:
			cfg.RuntimeServices = [][]string{nil, {}, {"audit"}, {"a", "b"}}[g.rng.Intn(4)]
			add("runtime-services=in")
		case 6:
			if g.running {
				switch g.rng.Intn(5) {
				case 0:
					cfg.DashboardAddress = g.clientURL
					add("dashboard-address=in:member-url")
				case 1:
					cfg.DashboardAddress = strings.TrimPrefix(g.clientURL, "http://")
					add("dashboard-address=in:member-url-without-scheme")
				case 2:
					cfg.DashboardAddress = "http://127.0.0.1:9"
					add("dashboard-address=edge:not-a-member")
				default:
					cfg.DashboardAddress = g.pick([]string{"auto", "none"})
					add("dashboard-address=in")
				}
			} else {
				cfg.DashboardAddress = g.pick([]string{"auto", "none"})
				add("dashboard-address=in")
			}
		case 7:
			cfg.TraceRegionFlow = !cfg.TraceRegionFlow
			add("trace-region-flow=in:deprecated-flag")
		case 8:
			if !g.running {
				cfg.UseRegionStorage = !cfg.UseRegionStorage
				add("use-region-storage=in")
			} else {
				add("nothing=in:identity")
			}
		}
	}
	return c.finish()
}

func (g *gen) label() (string, string, string) {
	return g.pick(labelTypes), g.pick(labelKeys), g.pick(labelVals)
}

func hasLabel(lp config.LabelPropertyConfig, typ, k, v string) bool {
	for _, l := range lp[typ] {
		if l.Key == k && l.Value == v {
			return true
		}
	}
	return false
}

func (g *gen) labelConfig(s *server.Server) *call {
	lp := config.LabelPropertyConfig{}
	n := g.rng.Intn(4)
	for i := 0; i < n; i++ {
		t, k, v := g.label()
		lp[t] = append(lp[t], config.StoreLabel{Key: k, Value: v}) // duplicates possible on purpose
	}
	if g.rng.Intn(6) == 0 {
		lp["empty"] = []config.StoreLabel{}
	}
	c := &call{Setter: "SetLabelPropertyConfig", lp: lp, Muts: []string{fmt.Sprintf("label-property=in:%d-labels", n)}}
	return c.finish()
}

func (g *gen) labelSet(s *server.Server) *call {
	t, k, v := g.label()
	c := &call{Setter: "SetLabelProperty", typ: t, key: k, val: v}
	if hasLabel(s.GetLabelProperty(), t, k, v) {
		c.Shape = "duplicate-label"
	} else {
		c.Shape = "new-label"
	}
	c.Muts = []string{"label=in:" + c.Shape}
	return c.finish()
}

func (g *gen) labelDelete(s *server.Server) *call {
	t, k, v := g.label()
	cur := s.GetLabelProperty()
	if g.rng.Intn(2) == 0 { // prefer a present label half of the time
		var typs []string
		for typ, l := range cur {
			if len(l) > 0 {
				typs = append(typs, typ)
			}
		}
		sort.Strings(typs) // map order must not leak into the case list
		if len(typs) > 0 {
			t = typs[g.rng.Intn(len(typs))]
			l := cur[t]
			i := g.rng.Intn(len(l))
			k, v = l[i].Key, l[i].Value
		}
	}
	c := &call{Setter: "DeleteLabelProperty", typ: t, key: k, val: v}
	if hasLabel(cur, t, k, v) {
		c.Shape = "present-label"
	} else {
		c.Shape = "absent-label"
	}
	c.Muts = []string{"label=in:" + c.Shape}
	return c.finish()
}

var goodVersions = []string{"4.0.0", "v5.0.0", "5.1.0-alpha", "5.0.0-rc.1", "v4.0.9+build.5", "0.0.0", "10.20.30", "2.1.17-beta+exp.sha"}
var badVersions = []string{"abc", "4.0", "4", "4.0.0.1", "-1.0.0", "4.x.0", "v", "5,0,0", "5.0.0 ", "99999999999999999999.0.0"}

func (g *gen) version() *call {
	c := &call{Setter: "SetClusterVersion"}
	switch g.rng.Intn(7) {
	case 0, 1, 2:
		c.ver = g.pick(badVersions)
		c.Muts = []string{"cluster-version=out:unparsable"}
	case 3:
		c.ver = ""
		c.Muts = []string{"cluster-version=edge:empty"}
	default:
		c.ver = g.pick(goodVersions)
		c.Muts = []string{"cluster-version=in"}
	}
	return c.finish()
}

func (g *gen) replicationMode(s *server.Server) *call {
	cfg := s.GetReplicationModeConfig().Clone()
	c := &call{Setter: "SetReplicationModeConfig", rm: cfg}
	add := func(m string) { c.Muts = append(c.Muts, m) }
	for n := g.nFields(); n > 0; n-- {
		switch g.rng.Intn(8) {
		case 0, 1:
			cfg.ReplicationMode = g.pick(validModes)
			add("replication-mode=in")
		case 2, 3:
			cfg.ReplicationMode = g.pick(invalidModes)
			add("replication-mode=out:invalid")
		case 4:
			cfg.ReplicationMode = g.pick(ambiguousModes)
			add("replication-mode=edge:variant-spelling")
		case 5:
			cfg.DRAutoSync.LabelKey = g.pick([]string{"zone", "dc", ""})
			cfg.DRAutoSync.Primary = g.pick([]string{"z1", ""})
			cfg.DRAutoSync.DR = g.pick([]string{"z2", ""})
			add("dr-auto-sync.labels=in")
		case 6:
			cfg.DRAutoSync.PrimaryReplicas = g.rng.Intn(5) - 1
			cfg.DRAutoSync.DRReplicas = g.rng.Intn(4)
			add("dr-auto-sync.replicas=in")
		case 7:
			cfg.DRAutoSync.WaitStoreTimeout = g.duration()
			cfg.DRAutoSync.WaitSyncTimeout = g.duration()
			cfg.DRAutoSync.WaitAsyncTimeout = g.duration()
			add("dr-auto-sync.timeouts=in")
		}
	}
	return c.finish()
}
