// C18 — Dynamic configuration changes are validated, atomic and durable.
//
// Phase (a): a real *server.Server (server.CreateServer, not started) whose storage is
// core.NewStorage(kvx(memory kv)). Every generated setter call is executed three ways from the
// same starting state: config write refused before it is sent, config write applied but its
// acknowledgement lost, and unfaulted. Oracles (written from the statement, see model.go/run.go):
// accepted => a fresh PersistOptions reloaded from the same storage equals the served
// configuration up to the documented reload normalisation, the requested section is the reloaded
// one, and every accepted value is inside its domain; refused or failed => all six served sections
// are exactly as before (label lists as sets) and, for fail-before-send, so is the stored config.
//
// Phase (b): a running bootstrapped server (storage = kvx over the server's own etcd prefix):
// single-key POSTs through api.NewHandler and direct setter calls, random write faults, then
// leader resign -> re-campaign -> reloadConfigFromKV and the served configuration is compared.
package main

import (
	"context"
	"encoding/json"
	"fmt"
	"io/ioutil"
	"math/rand"
	"os"
	"time"

	"github.com/tikv/pd/server"
	"github.com/tikv/pd/server/config"
	"github.com/tikv/pd/server/core"
	"github.com/tikv/pd/server/kv"
	"verif/harness/lib/ev"
	"verif/harness/lib/kvx"
	"verif/harness/lib/srv"
)

var phaseWall = map[string]time.Duration{}

func timed(name string, f func()) {
	t := time.Now()
	f()
	phaseWall[name] += time.Since(t)
}

func phaseA(r *ev.Run, rng *rand.Rand) {
	cfgs := srv.NewConfigs(1, func(i int, c *config.Config) {
		// without a running raft cluster placement rules cannot be switched on (pd answers
		// "not bootstrapped"); the coupling with the default rule is exercised in phase (b)
		c.Replication.EnablePlacementRules = false
	})
	defer os.RemoveAll(cfgs[0].DataDir)
	ctx, cancel := context.WithCancel(context.Background())
	defer cancel()
	s, err := server.CreateServer(ctx, cfgs[0])
	if err != nil {
		r.Inconclusive("CreateServer: %v", err)
		return
	}
	e := &env{r: r, s: s, kv: kvx.New(kv.NewMemoryKV()), phase: "direct", seen: map[string]bool{}, midWait: 60 * time.Millisecond, blockedWait: 60 * time.Millisecond, settle: 15 * time.Millisecond}
	e.store = core.NewStorage(e.kv)
	s.SetStorage(e.store)
	g := &gen{rng: rng}

	firstPersist(e)
	if !e.consistent() {
		r.Inconclusive("direct phase: the first update was not stored")
		return
	}
	n := r.Pick(1100, 14000)
	for i := 0; i < n; i++ {
		e.threeWays(g.next(s))
		if i%89 == 88 {
			// the long-lived serving options are reloaded in place, as a re-campaign does
			e.reloadServing()
		}
	}
	r.Count("random_cases_direct", int64(n))

	// directed boundary cases (also the canonical witnesses of findings about label rollback):
	// run after the random cases so that what the random search found is reported first.
	e.phase = "directed"
	for _, d := range directed(s) {
		if d.setup != nil {
			e.kv.ResetFaults()
			if err := d.setup(); err != nil {
				r.Inconclusive("directed case setup: %v", err)
				return
			}
		}
		e.threeWays(d.mk())
		r.Count("directed_cases", 1)
	}
	timed("list-grid", e.listGrids)
	timed("single-field", e.fieldGridDirect)
	timed("get-edit-set", e.getEditSet)
	timed("concurrent-direct", func() { e.concurrentDirect(g, r.Pick(8, 100)) })
}

type directedCase struct {
	setup func() error
	mk    func() *call
}

func directed(s *server.Server) []directedCase {
	sched := func(f func(c *config.ScheduleConfig), mut string) directedCase {
		return directedCase{mk: func() *call {
			c := s.GetScheduleConfig()
			f(c)
			return (&call{Setter: "SetScheduleConfig", sched: c, Muts: []string{mut}}).finish()
		}}
	}
	lbl := config.StoreLabel{Key: "zone", Value: "z1"}
	return []directedCase{
		{setup: func() error {
			return s.SetLabelPropertyConfig(config.LabelPropertyConfig{"reject-leader": {lbl}})
		}, mk: func() *call {
			return (&call{Setter: "SetLabelProperty", typ: "reject-leader", key: "zone", val: "z1", Shape: "duplicate-label", Muts: []string{"label=in:duplicate-label"}}).finish()
		}},
		{setup: func() error { return s.SetLabelPropertyConfig(config.LabelPropertyConfig{}) }, mk: func() *call {
			return (&call{Setter: "DeleteLabelProperty", typ: "reject-leader", key: "zone", val: "z1", Shape: "absent-label", Muts: []string{"label=in:absent-label"}}).finish()
		}},
		{setup: func() error {
			return s.SetLabelPropertyConfig(config.LabelPropertyConfig{"reject-leader": {lbl}})
		}, mk: func() *call {
			return (&call{Setter: "DeleteLabelProperty", typ: "reject-leader", key: "zone", val: "z1", Shape: "present-label", Muts: []string{"label=in:present-label"}}).finish()
		}},
		{setup: func() error { return s.SetLabelPropertyConfig(config.LabelPropertyConfig{}) }, mk: func() *call {
			return (&call{Setter: "SetLabelProperty", typ: "reject-leader", key: "zone", val: "z1", Shape: "new-label", Muts: []string{"label=in:new-label"}}).finish()
		}},
		sched(func(c *config.ScheduleConfig) { c.LowSpaceRatio, c.HighSpaceRatio = 0.7, 0.7 }, "space-ratios=out:equal"),
		sched(func(c *config.ScheduleConfig) { c.LowSpaceRatio, c.HighSpaceRatio = 1, 1 }, "space-ratios=out:equal"),
		sched(func(c *config.ScheduleConfig) { c.LowSpaceRatio, c.HighSpaceRatio = 0, 0 }, "space-ratios=out:equal"),
		sched(func(c *config.ScheduleConfig) { c.LowSpaceRatio, c.HighSpaceRatio = 1, 0 }, "space-ratios=in:boundary-1-0"),
		sched(func(c *config.ScheduleConfig) { c.LowSpaceRatio = 1.000000001 }, "low-space-ratio=out:1+eps"),
		sched(func(c *config.ScheduleConfig) { c.HighSpaceRatio = -1e-9 }, "high-space-ratio=out:-eps"),
		sched(func(c *config.ScheduleConfig) { c.TolerantSizeRatio = -1e-9 }, "tolerant-size-ratio=out:-eps"),
		sched(func(c *config.ScheduleConfig) { c.TolerantSizeRatio = 0 }, "tolerant-size-ratio=in:0"),
		sched(func(c *config.ScheduleConfig) {
			c.Schedulers = append(c.Schedulers, config.SchedulerConfig{Type: "no-such-scheduler"})
		}, "schedulers=out:unregistered-type"),
		sched(func(c *config.ScheduleConfig) { c.Schedulers = nil }, "schedulers=in:none"),
		{mk: func() *call {
			c := s.GetReplicationConfig()
			c.LocationLabels, c.IsolationLevel = []string{"zone", "rack"}, "host"
			return (&call{Setter: "SetReplicationConfig", repl: c, Muts: []string{"isolation-level=out:not-a-location-label"}}).finish()
		}},
		{mk: func() *call {
			c := s.GetReplicationConfig()
			c.LocationLabels, c.IsolationLevel = []string{"zone", "rack"}, "rack"
			return (&call{Setter: "SetReplicationConfig", repl: c, Muts: []string{"isolation-level=in"}}).finish()
		}},
		{mk: func() *call {
			c := s.GetPDServerConfig()
			c.FlowRoundByDigit = -1
			return (&call{Setter: "SetPDServerConfig", pd: c, Muts: []string{"flow-round-by-digit=out:-1"}}).finish()
		}},
		{mk: func() *call {
			c := s.GetPDServerConfig()
			c.FlowRoundByDigit = 0
			return (&call{Setter: "SetPDServerConfig", pd: c, Muts: []string{"flow-round-by-digit=in:0"}}).finish()
		}},
		{mk: func() *call {
			c := s.GetReplicationModeConfig().Clone()
			c.ReplicationMode = "bogus"
			return (&call{Setter: "SetReplicationModeConfig", rm: c, Muts: []string{"replication-mode=out:invalid"}}).finish()
		}},
		{mk: func() *call {
			c := s.GetReplicationModeConfig().Clone()
			c.ReplicationMode = "dr-auto-sync"
			c.DRAutoSync.LabelKey = "zone"
			return (&call{Setter: "SetReplicationModeConfig", rm: c, Muts: []string{"replication-mode=in"}}).finish()
		}},
		{mk: func() *call {
			return (&call{Setter: "SetClusterVersion", ver: "abc", Muts: []string{"cluster-version=out:unparsable"}}).finish()
		}},
		{mk: func() *call {
			return (&call{Setter: "SetClusterVersion", ver: "v5.0.0-rc.1", Muts: []string{"cluster-version=in"}}).finish()
		}},
	}
}

func phaseB(r *ev.Run, rng *rand.Rand) {
	ru, err := startRunning(r)
	if err != nil {
		r.Inconclusive("running server: %v", err)
		return
	}
	defer ru.close()
	g := &gen{rng: rng}
	ru.runPhase(g, r.Pick(6, 40), r.Pick(45, 60))
	if ru.ready() {
		timed("list-grid-http", ru.httpListGrids)
	}
	if ru.ready() {
		timed("single-field-http", ru.fieldGridHTTP)
	}
	if ru.ready() {
		timed("concurrent-running", func() { ru.concurrentRunning(r.Thorough()) })
	}
	timed("restart", ru.restart)
}

func main() {
	r := ev.New("C18", "fault_enumeration")
	r.Rule("direct: each case = one setter call (SetScheduleConfig / SetReplicationConfig / SetPDServerConfig / SetLabelPropertyConfig / SetLabelProperty / DeleteLabelProperty / SetClusterVersion / SetReplicationModeConfig) whose payload is the currently served section with 1-4 fields replaced by in-domain, boundary (0, 1, equal ratios, +-1e-9, NaN) or out-of-domain values, executed from one starting state under {config write refused before send, acknowledgement lost, unfaulted}; running: single-key POSTs to /pd/api/v1/config, /config/schedule, /config/replicate, /config/replication-mode, /config/label-property, /config/cluster-version and direct setter calls on a bootstrapped server with random write faults, leader resign + re-campaign every 45-60 updates; get-edit-set: 16 (getter, in-place edit of a nested slice/map) cases x {dropped, set with an invalid value, set} x 3 fault modes; overlap: groups of 2 updates (different sections, same section, label read-modify-write; directed + random from evolving states; on the running server setter || POST /store/1/limit) parked at their write of key config, both start orders x every release order (DFS) x {no failure, refused-before-send / lost-ack at released write 1 or 2}; in-flight: an update parked at its write while the serving options are reloaded in place (direct) or the leader resigns and re-campaigns (running), then a second update, both release orders x the same failures; the long-lived serving options are reloaded in place every 89 direct cases; list grids (complete): location-label lists of length 1..4 x isolation level {none, each index, not in the list} x {no illegal label, one of 9 illegal label-key forms at each index} through SetReplicationConfig, POST /config/replicate and POST /config (where expressible), scheduler lists of length 1..4 with one unregistered type at each index, label-property lists and store-limit maps with one odd item at each position; single-field grid (complete): every leaf field of the schedule, replication, pd-server and replication-mode structs (found by reflection) x its values (0/1/current+1/2^53+1/max for numbers, toggles, empty/suffix/upper-case/path-like and enum spellings for strings, 0/1h/90m for durations) through the setter, POST /config and the section route, in every JSON spelling (number as string, bool as string or unquoted, 60m/3600s/1h0m0s), plus the key in upper case and an unknown sibling key; groups of three updates of three sections; lifecycle: Reload of an empty store and Persist right after construction, two reloads in a row, context cancelled then Close then a new server on the same data. distinct = (phase, call site, input shape, set of mutated fields with their value classes, fault mode, outcome accepted/rejected/failed-write)")
	r.Assume("setters are called on a real *server.Server; phase 'direct' uses server.CreateServer without Run (placement rules off, dashboard address auto/none) and core.NewStorage over an instrumented in-memory kv.Base; phase 'running' uses a started, bootstrapped single member whose storage is core.NewStorage over an instrumented etcd kv.Base at the server's own root path, and api.NewHandler invoked in process (httptest)")
	r.Assume("storage failure = the first Save of key \"config\" inside the call fails, either before it is applied or after (lost acknowledgement); reload = config.NewPersistOptions(&config.Config{}).Reload(same storage)")
	r.Assume("reload normalisation (documented): default schedulers re-added, disable-* / store-balance-rate / trace-region-flow / disable-raft-learner migrated away, schedulers-payload is display only, null == empty container, label lists are sets and a type without labels == absent type")
	r.Assume("overlapping updates are judged by serial-order explanation: served section = some order of the accepted updates of that section (after a reload in the group also of updates refused with a lost acknowledgement); reloaded section = some order of the accepted plus any subset of the write-failed updates; no failure at all => reloaded == served; untouched sections unchanged. Interleavings are only those a real server has: concurrent handler goroutines meeting at the storage write, no lock is bypassed; waits for a blocked participant steer exploration only")
	r.Assume("not driven overlapped: SetAllStoresLimit, AddStoreLimit/RemoveStoreLimit and OnStoreVersionChange (PutStore), coordinator scheduler add/remove and start-up rewrite (needs the 5 min prepare), lazy GetStoreLimit insert; in-memory windows between a handler's read and its setter call (no storage operation to gate); a failure of the second (revert) write of SetReplicationModeConfig")
	r.Assume("lists that pd marshals as one comma-joined string (location-labels, runtime-services) are observed with their element structure as well; a location label must be a legal label key (documented format: alphanumerics, '-', '_', '.', '/', starting and ending alphanumeric, optional leading '$'); no length limit is documented, none is judged; runtime-services items are not validated by pd and commas inside them are not generated")
	r.Assume("sections are observed twice: as JSON and field by field through reflection ((fields)); an accepted single-field update must leave every other field of every section as it was and, where the spelling is the natural JSON form, serve exactly the requested value; a key spelled in another letter case or an unknown key is counted (skipped_ambiguous) when pd accepts it, but may never change another field")
	r.Assume("the random generator offers leader-schedule-policy outside {count,size} and key-type outside {table,raw,txn} on the not-started server only (an implementation that accepted them would lose its process to the background statistics job); the single-field grids offer them everywhere; an item of runtime-services containing ',' is reachable from Go only and is counted, not judged")
	r.Assume("not judged: multi-key POST /config (keys are applied one by one), empty cluster version (documented: base version), case/underscore variants of the replication mode, the default placement rule after a refused replication update (counted as default_rule_out_of_sync_repaired, repaired by the harness)")
	if r.Replay != "" {
		// the case list is a function of (seed, tier, shard): a replay re-runs the recorded one
		var doc struct {
			Seed   int64  `json:"seed"`
			Tier   string `json:"tier"`
			Shard  int    `json:"shard"`
			Shards int    `json:"shards"`
		}
		b, err := ioutil.ReadFile(r.Replay)
		if err != nil || json.Unmarshal(b, &doc) != nil || doc.Shards < 1 {
			r.Inconclusive("cannot read replay file %s", r.Replay)
			r.Finish()
		}
		r.Seed, r.Tier, r.Shard, r.Shards = doc.Seed, doc.Tier, doc.Shard, doc.Shards
	}
	rng := rand.New(rand.NewSource(r.ShardSeed()))
	t0 := time.Now()
	phaseA(r, rng)
	t1 := time.Now()
	phaseB(r, rng)
	// observability only
	r.Set("phase_wall_s", map[string]float64{"created-server phases": t1.Sub(t0).Seconds(), "running-server phases": time.Since(t1).Seconds()})
	for k, d := range phaseWall {
		r.Set("wall_s_"+k, d.Seconds())
	}
	r.Floor(int64(r.Pick(3000, 10000)))
	if r.Counter("faults_injected_fail-before") == 0 || r.Counter("faults_injected_lost-ack") == 0 || r.Counter("reload_comparisons") == 0 || r.Counter("leader_change_comparisons") == 0 {
		r.Inconclusive("a monitored event class was never observed: %s", fmt.Sprint(map[string]int64{
			"fail-before": r.Counter("faults_injected_fail-before"), "lost-ack": r.Counter("faults_injected_lost-ack"),
			"reloads": r.Counter("reload_comparisons"), "leader-change-comparisons": r.Counter("leader_change_comparisons")}))
	}
	r.Finish()
}
