package main

// Overlapping configuration updates (gate-scheduled) and updates in flight across a reload.
//
// Entry points that change one of the six sections or write the stored configuration on a real
// server run without a common lock (HTTP handlers are concurrent; the raft cluster persists store
// limits on its own). This file drives 2-3 of them at once from one starting state: every worker
// parks at its Save of the key "config"; start orders are permuted (staggered start), release
// orders are enumerated depth-first, and a write failure (refused before send / lost
// acknowledgement) is placed at the k-th released write. A third kind of participant reloads the
// serving options from storage (what campaignLeader does) while an update is parked.
//
// Oracle = the statement applied to every participant, with the outcome each call reported:
//   - the served section must be what SOME serial order of the ACCEPTED updates of that section
//     produces from the starting value (a refused update contributes nothing: "leaves the served
//     configuration exactly as it was");
//   - the reloaded section must be what some serial order of the accepted updates plus any subset
//     of the updates refused because of an injected write failure produces (a lost acknowledgement
//     may legitimately leave the refused content in the store; a refused-before-send one may have
//     been written by a neighbour's snapshot - observed, not judged);
//   - without any injected failure, reloaded == served for every section;
//   - sections nobody updates stay as they were, served and reloaded.

import (
	"encoding/json"
	"fmt"
	"sort"
	"strings"
	"sync"
	"time"

	"verif/harness/lib/hist"
	"verif/harness/lib/kvx"
	"verif/harness/lib/sched"
)

var setterSection = map[string]string{
	"SetScheduleConfig": "schedule", "SetReplicationConfig": "replication", "SetPDServerConfig": "pd-server",
	"SetLabelPropertyConfig": "label-property", "SetLabelProperty": "label-property", "DeleteLabelProperty": "label-property",
	"SetClusterVersion": "cluster-version", "SetReplicationModeConfig": "replication-mode",
}

// cop is one participant.
type cop struct {
	Name string      `json:"op"`
	Desc interface{} `json:"request"`
	sec  string      // section it updates; "" for a reload participant
	kind string      // whole-section | label-rmw | store-limit-rmw (how the update is computed)
	st   *step
	// apply is the requested change as a function on the normalised section value (decoded JSON).
	apply func(v interface{}) interface{}
	// inflightAcrossReload: an accepted update that was parked while the options were reloaded
	// is judged on the reloaded configuration only (the served clause is about refused updates).
	noServedClause bool
}

func constModel(canonical string) func(interface{}) interface{} {
	return func(interface{}) interface{} { return decodeBytes([]byte(canonical)) }
}

// labelModel works on the normalised label-property value: type -> sorted list of "key=value".
func labelModel(set bool, typ, item string) func(interface{}) interface{} {
	return func(v interface{}) interface{} {
		out := map[string]interface{}{}
		if m, ok := v.(map[string]interface{}); ok {
			for k, l := range m {
				out[k] = l
			}
		}
		have := map[string]bool{}
		if l, ok := out[typ].([]interface{}); ok {
			for _, x := range l {
				have[fmt.Sprint(x)] = true
			}
		}
		if set {
			have[item] = true
		} else {
			delete(have, item)
		}
		var l []string
		for x := range have {
			l = append(l, x)
		}
		sort.Strings(l)
		if len(l) == 0 {
			delete(out, typ)
		} else {
			il := make([]interface{}, len(l))
			for i, x := range l {
				il[i] = x
			}
			out[typ] = il
		}
		return out
	}
}

// copOf builds the participant for a direct setter call; nil when the call has no exact model.
func (e *env) copOf(c *call) *cop {
	p := &cop{Name: c.Setter, Desc: c, sec: setterSection[c.Setter], st: e.directStep(c)}
	p.kind = "whole-section"
	if sec, want, ok := c.requested(); ok {
		p.apply = constModel(normSection(sec, want))
		return p
	}
	switch c.Setter {
	case "SetLabelProperty":
		p.kind = "label-rmw"
		p.apply = labelModel(true, c.typ, c.key+"="+c.val)
	case "DeleteLabelProperty":
		p.kind = "label-rmw"
		p.apply = labelModel(false, c.typ, c.key+"="+c.val)
	case "SetClusterVersion":
		want, ok := parseVersion(c.ver)
		if !ok {
			if c.ver == "" {
				return nil // ambiguous zone
			}
			want = c.ver // must be refused; the domain oracle of the sequential phases owns that
		}
		p.apply = constModel(canon(want))
	default:
		return nil
	}
	return p
}

type concOutcome struct {
	Op       string `json:"op"`
	Accepted bool   `json:"accepted"`
	Msg      string `json:"response,omitempty"`
	Faulted  string `json:"write_failure,omitempty"`
	Panicked string `json:"panicked,omitempty"`
}

type concResult struct {
	outcomes []concOutcome
	trace    []sched.Info
	traceKey string
	blocked  int
	injected int64
	after    secs
	reloaded secs
	relErr   error
	schedErr error
}

// concRun executes ops (started one after the other in the given order, each running up to its
// first config write) under the release order chosen by ch, with the faultAt-th released config
// write failing as mode says.
func (e *env) concRun(ops []*cop, order []int, ch func(int, []sched.Info) int, mode kvx.FaultMode, faultAt int) (*concResult, *sched.Sched) {
	res := &concResult{outcomes: make([]concOutcome, len(ops))}
	s := sched.New()
	s.Stagger = true
	if e.settle > 0 {
		s.Settle = e.settle
	}
	e.kv.ResetLog()
	e.kv.ResetFaults()
	if mode != kvx.NoFault {
		n := 0
		e.kv.FailAllWrites(mode, func(kind, key string) bool {
			if key == configKey {
				n++
				return n == faultAt
			}
			return false
		})
	}
	e.kv.Gate = func(kind, key string) {
		if kind == "Save" && key == configKey {
			s.Gate(kind, key)
		}
	}
	e.kv.Done = func(kind, key string) {
		if kind == "Save" && key == configKey {
			s.Done(kind, key)
		}
	}
	goids := make([]int64, len(ops))
	var mu sync.Mutex
	var ws []func()
	for _, i := range order {
		i := i
		ws = append(ws, func() {
			g := hist.Goid()
			mu.Lock()
			goids[i] = g
			mu.Unlock()
			o := concOutcome{Op: ops[i].Name}
			func() {
				defer func() {
					if p := recover(); p != nil {
						o.Panicked = fmt.Sprint(p)
					}
				}()
				o.Accepted, o.Msg = ops[i].st.do()
			}()
			mu.Lock()
			res.outcomes[i] = o
			mu.Unlock()
		})
	}
	s.Run(ws, ch)
	e.kv.Gate, e.kv.Done = nil, nil
	res.injected = e.kv.Injected()
	e.kv.ResetFaults()
	for _, x := range e.kv.Log() {
		if x.Kind == "Save" && x.Key == configKey && x.Fault != "" {
			for i, g := range goids {
				if g == x.Goid {
					res.outcomes[i].Faulted = x.Fault
				}
			}
		}
	}
	// the trace names workers by their position in the start order: translate to op names
	for _, t := range s.Trace {
		res.trace = append(res.trace, t)
		res.traceKey += ops[order[t.Worker]].Name + ";"
	}
	res.blocked, res.schedErr = s.Blocked, s.Err
	res.after = servedSecs(e.s)
	res.reloaded, res.relErr = e.reload()
	return res, s
}

func perms(n int) [][]int {
	if n == 0 {
		return [][]int{{}}
	}
	var out [][]int
	var rec func(cur []int, used []bool)
	rec = func(cur []int, used []bool) {
		if len(cur) == n {
			out = append(out, append([]int(nil), cur...))
			return
		}
		for i := 0; i < n; i++ {
			if !used[i] {
				used[i] = true
				rec(append(cur, i), used)
				used[i] = false
			}
		}
	}
	rec(nil, make([]bool, n))
	return out
}

// foldAll returns the canonical results of applying every order of every set (accepted + a subset
// of optional) of updates to the start value.
func foldAll(start string, must, optional []*cop) map[string]bool {
	out := map[string]bool{}
	for mask := 0; mask < 1<<uint(len(optional)); mask++ {
		l := append([]*cop(nil), must...)
		for i, o := range optional {
			if mask&(1<<uint(i)) != 0 {
				l = append(l, o)
			}
		}
		for _, p := range perms(len(l)) {
			v := decodeBytes([]byte(start))
			for _, i := range p {
				v = l[i].apply(v)
			}
			out[canon(v)] = true
		}
	}
	return out
}

func keysOf(m map[string]bool) []string {
	var l []string
	for k := range m {
		l = append(l, clip(k))
	}
	sort.Strings(l)
	return l
}

// concJudge applies the serial-order oracle. family names the workload family for keys/evidence.
func (e *env) concJudge(family string, before secs, ops []*cop, order []int, mode kvx.FaultMode, faultAt int, res *concResult) {
	r := e.r
	r.Eval(1)
	r.Count(family+"_executions", 1)
	var names []string
	secsSeen := map[string]int{}
	anyFault := false
	shape := ""
	for i, o := range ops {
		names = append(names, o.Name)
		if o.sec != "" {
			secsSeen[o.sec]++
		}
		oc := res.outcomes[i]
		switch {
		case oc.Panicked != "":
			shape += "P"
		case oc.Accepted:
			shape += "a"
		case oc.Faulted != "":
			shape += "f"
		default:
			shape += "r"
		}
		if oc.Faulted != "" {
			anyFault = true
		}
	}
	relation := "different-sections"
	for sec, n := range secsSeen {
		if n > 1 {
			// same section: the kinds of the updates that meet there are part of the history's identity
			var kinds []string
			for _, o := range ops {
				if o.sec == sec {
					kinds = append(kinds, o.kind)
				}
			}
			sort.Strings(kinds)
			relation = "same-section:" + strings.Join(kinds, "||")
		}
	}
	withReload := false
	for _, o := range ops {
		if o.sec == "" {
			withReload = true
		}
	}
	faultClass := "no-fault"
	if anyFault {
		faultClass = "write-failure-in-race"
	}
	r.Distinct(fmt.Sprintf("%s|%s|%v|%s|%s@%d|%s", family, strings.Join(names, "||"), order, res.traceKey, modeNames[mode], faultAt, shape))
	r.Count(family+"_"+faultClass, 1)
	names = append(names, "("+faultClass+")")
	// key suffix: workload family and the write failure that was really injected (which released write)
	faultKey := "no-fault"
	if res.injected > 0 {
		faultKey = fmt.Sprintf("%s@write%d", modeNames[mode], faultAt)
	}
	ctx := relation + ":" + family + ":" + faultKey
	if res.injected > 0 {
		r.Count("faults_injected_in_race_"+modeNames[mode], 1)
	}
	if res.blocked > 0 {
		r.Count(family+"_blocked_quiescence", int64(res.blocked))
	}
	wit := func(extra map[string]interface{}) map[string]interface{} {
		var startOrder, released []string
		for _, i := range order {
			startOrder = append(startOrder, ops[i].Name)
		}
		for _, t := range res.trace {
			released = append(released, ops[order[t.Worker]].Name)
		}
		var oneLine []string
		for i, o := range ops {
			oc := "refused"
			if res.outcomes[i].Accepted {
				oc = "accepted"
			} else if res.outcomes[i].Faulted != "" {
				oc = "refused(" + res.outcomes[i].Faulted + ")"
			}
			oneLine = append(oneLine, fmt.Sprintf("%s %s -> %s", o.Name, o.brief(), oc))
		}
		w := map[string]interface{}{
			"summary": fmt.Sprintf("start %v; config writes released %v; failure %s; %s", startOrder, released, faultKey, strings.Join(oneLine, " | ")),
			"family":  family, "phase": e.phase, "case": e.caseNo, "seed": r.Seed, "shard": r.Shard,
			"participants": ops, "start_order": startOrder, "config_writes_released_in_order": released,
			"write_failure": fmt.Sprintf("%s at released config write #%d", modeNames[mode], faultAt), "outcomes": res.outcomes,
		}
		if mode == kvx.NoFault {
			w["write_failure"] = "none"
		}
		for k, v := range extra {
			w[k] = v
		}
		return w
	}
	if res.schedErr != nil {
		r.Inconclusive("%s: scheduler: %v", family, res.schedErr)
		return
	}
	for i, oc := range res.outcomes {
		if oc.Panicked != "" {
			e.violate(keyOf("concurrent-updates", "panic", ops[i].Name, family), fmt.Sprintf("%s panicked while overlapping with %v: %s", ops[i].Name, names, oc.Panicked), wit(nil))
			return
		}
	}
	if res.relErr != nil {
		e.violate(keyOf("concurrent-updates", "reload-fails", ctx), fmt.Sprintf("after overlapping %v a fresh PersistOptions cannot reload: %v", names, res.relErr), wit(nil))
		return
	}
	nb, na, nr := normalised(before), normalised(res.after), normalised(res.reloaded)
	eb, ea := exact(before), exact(res.after)
	for _, sec := range sectionNames {
		var acc, failed, applied, all []*cop
		servedJudged := true
		for i, o := range ops {
			if o.sec != sec {
				continue
			}
			all = append(all, o)
			oc := res.outcomes[i]
			if oc.Accepted {
				acc = append(acc, o)
				if o.noServedClause {
					servedJudged = false
				}
			} else if oc.Faulted != "" {
				failed = append(failed, o)
				if oc.Faulted == "lost-ack" && withReload {
					// the write was applied: a reload that follows legitimately serves it
					applied = append(applied, o)
				}
			}
		}
		if len(all) == 0 {
			if (withReload && nb[sec] != na[sec]) || (!withReload && eb[sec] != ea[sec]) {
				e.violate(keyOf("concurrent-updates", "untouched-section-changed", ctx),
					fmt.Sprintf("overlapping %v (outcomes %s) changed the served %s section that none of them updates: %s", names, shape, sec, fieldDiff(eb[sec], ea[sec])),
					wit(map[string]interface{}{"section": sec, "served_before": before[sec], "served_after": res.after[sec]}))
			}
			if nb[sec] != nr[sec] {
				e.violate(keyOf("concurrent-updates", "untouched-section-reloads-differently", ctx),
					fmt.Sprintf("after overlapping %v (outcomes %s) the %s section, which none of them updates, reloads differently: %s", names, shape, sec, fieldDiff(nb[sec], nr[sec])),
					wit(map[string]interface{}{"section": sec}))
			}
			continue
		}
		servedAllowed := foldAll(nb[sec], acc, applied)
		if servedJudged {
			r.Count("serial_order_checks_served", 1)
			if !servedAllowed[na[sec]] {
				clause := "refused-update-changed-served"
				what := "a refused update altered what is served"
				if len(acc) > 0 {
					clause, what = "served-differs-from-every-serial-order", "an accepted update is missing from (or a refused one present in) what is served"
				}
				e.violate(keyOf("concurrent-updates", clause, ctx),
					fmt.Sprintf("overlapping %v, outcomes %s (a accepted, r rejected, f failed write): the served %s section is not what any order of the accepted updates gives - %s. served: %s; allowed: %v",
						names, shape, sec, what, clip(na[sec]), keysOf(servedAllowed)),
					wit(map[string]interface{}{"section": sec, "served_before": before[sec], "served_after": res.after[sec], "reloaded_after": res.reloaded[sec], "allowed_served": keysOf(servedAllowed)}))
				continue
			}
		} else {
			r.Count("served_clause_skipped_accepted_across_reload", 1)
			if !servedAllowed[na[sec]] {
				// the reload wiped the accepted update from memory: stored, but not served until
				// the next leader change - observed, the statement does not speak about it
				r.Count("accepted_update_not_served_after_reload_observed", 1)
			}
		}
		reloadAllowed := foldAll(nb[sec], acc, failed)
		r.Count("serial_order_checks_reloaded", 1)
		if !reloadAllowed[nr[sec]] {
			e.violate(keyOf("concurrent-updates", "accepted-change-not-reloaded", ctx),
				fmt.Sprintf("overlapping %v, outcomes %s (a accepted, r rejected, f failed write): the reloaded %s section is not what any order of the accepted updates (plus any of the failed ones) gives. reloaded: %s; allowed: %v",
					names, shape, sec, clip(nr[sec]), keysOf(reloadAllowed)),
				wit(map[string]interface{}{"section": sec, "served_before": before[sec], "served_after": res.after[sec], "reloaded_after": res.reloaded[sec], "allowed_reloaded": keysOf(reloadAllowed)}))
			continue
		}
		if !anyFault && servedJudged && na[sec] != nr[sec] {
			e.violate(keyOf("concurrent-updates", "reload-differs-from-served", ctx),
				fmt.Sprintf("overlapping %v, all accepted or rejected without any write failure: the %s section reloads differently from what is served (served -> reloaded): %s", names, sec, fieldDiff(na[sec], nr[sec])),
				wit(map[string]interface{}{"section": sec, "served_after": res.after[sec], "reloaded_after": res.reloaded[sec]}))
		}
		// observed only: a refused-before-send change that a neighbour's snapshot carried into the store
		if len(failed) > 0 && !foldAll(nb[sec], acc, nil)[nr[sec]] {
			r.Count("refused_change_in_store_after_race", 1)
		}
	}
}

var raceFaults = []struct {
	mode kvx.FaultMode
	at   int
}{{kvx.NoFault, 0}, {kvx.FailBefore, 1}, {kvx.LostAck, 1}, {kvx.FailBefore, 2}, {kvx.LostAck, 2}}

// grid runs ops from the current state under every start order x release order x fault placement
// (complete for these small groups), restoring the state before each execution, and leaves the
// state as it was. mk rebuilds the participants (payloads are functions of the starting state).
func (e *env) grid(family string, ops []*cop, orders [][]int, restore func(), sample bool) {
	e.caseNo++
	restore()
	before := servedSecs(e.s)
	for _, order := range orders {
		for _, f := range raceFaults {
			ex := &sched.Explorer{}
			for {
				ch := ex.Next()
				if ch == nil {
					break
				}
				restore()
				res, s := e.concRun(ops, order, ch, f.mode, f.at)
				ex.Advance(s)
				e.concJudge(family, before, ops, order, f.mode, f.at, res)
				if sample && f.mode == kvx.LostAck && f.at == 1 && ex.Runs == 1 {
					e.r.Sample(map[string]interface{}{"family": family, "participants": ops, "start_order": order, "released": res.traceKey, "write_failure": "lost-ack at released config write #1", "outcomes": res.outcomes})
				}
				if ex.Runs > 200 {
					e.r.Count(family+"_grid_truncated", 1)
					break
				}
			}
		}
	}
	restore()
}

// brief is a short rendering of the request for one-line witnesses.
func (o *cop) brief() string {
	switch d := o.Desc.(type) {
	case *call:
		if len(d.Muts) > 0 {
			return "{" + strings.Join(d.Muts, ",") + "}"
		}
		if len(d.Args) > 70 {
			return "(" + d.Args[:70] + "...)"
		}
		return "(" + d.Args + ")"
	case *post:
		b, _ := json.Marshal(d.Body)
		return string(b)
	}
	return ""
}

// noCop takes the place of the second update in the "one update in flight, nothing else" runs.
func noCop() *cop {
	return &cop{Name: "-", Desc: "no second update", st: &step{Site: "-", do: func() (bool, string) { return true, "" }}}
}

// reloadCop is the participant that reloads the serving options from storage.
func reloadCop(do func() (bool, string)) *cop {
	return &cop{Name: "Reload", Desc: "serving PersistOptions reloaded from storage (campaignLeader)", st: &step{Site: "Reload", do: do}}
}

// ---- an update parked at its config write while the options are reloaded ----

// inflightRun: ops = {x, mid, y}. x runs up to its first write of the config key and parks; mid
// runs to completion on the calling goroutine (in-place reload / leader resign + re-campaign); y is
// started and runs up to its first config write (or ends, or - should pd ever serialise updates -
// blocks behind x); then the parked writes are released, y's first when yFirst. No settle timing
// is involved unless y blocks.
func (e *env) inflightRun(ops []*cop, yFirst bool, mode kvx.FaultMode, faultAt int) *concResult {
	res := &concResult{outcomes: make([]concOutcome, 3)}
	e.kv.ResetLog()
	e.kv.ResetFaults()
	if mode != kvx.NoFault {
		n := 0
		e.kv.FailAllWrites(mode, func(kind, key string) bool {
			if key == configKey {
				n++
				return n == faultAt
			}
			return false
		})
	}
	var mu sync.Mutex
	watch := map[int64]chan struct{}{}
	arrived := make(chan int64, 4)
	e.kv.Gate = func(kind, key string) {
		if kind != "Save" || key != configKey {
			return
		}
		g := hist.Goid()
		mu.Lock()
		ch, ok := watch[g]
		delete(watch, g) // only the first config write of a participant parks
		mu.Unlock()
		if ok {
			arrived <- g
			<-ch
		}
	}
	e.kv.Done = nil
	goids := make([]int64, 3)
	rel := make([]chan struct{}, 3)
	done := make([]chan struct{}, 3)
	parked := make([]bool, 3)
	finished := make([]bool, 3)
	run := func(i int) {
		o := concOutcome{Op: ops[i].Name}
		func() {
			defer func() {
				if p := recover(); p != nil {
					o.Panicked = fmt.Sprint(p)
				}
			}()
			o.Accepted, o.Msg = ops[i].st.do()
		}()
		mu.Lock()
		res.outcomes[i] = o
		mu.Unlock()
	}
	start := func(i int) {
		ready := make(chan struct{})
		done[i] = make(chan struct{})
		rel[i] = make(chan struct{})
		go func() {
			g := hist.Goid()
			mu.Lock()
			goids[i] = g
			watch[g] = rel[i]
			mu.Unlock()
			close(ready)
			run(i)
			close(done[i])
		}()
		<-ready
	}
	// wait until participant i parked or finished; false after the timeout (blocked / stuck)
	wait := func(i int, d time.Duration) bool {
		t := time.After(d)
		for {
			select {
			case g := <-arrived:
				for j := range goids {
					if goids[j] == g {
						parked[j] = true
					}
				}
				if parked[i] {
					return true
				}
			case <-done[i]:
				finished[i] = true
				return true
			case <-t:
				return false
			}
		}
	}
	release := func(i int) bool {
		if !parked[i] || finished[i] {
			return true
		}
		parked[i] = false
		res.trace = append(res.trace, sched.Info{Worker: i, Kind: "Save", Key: configKey})
		res.traceKey += ops[i].Name + ";"
		close(rel[i])
		select {
		case <-done[i]:
			finished[i] = true
			return true
		case <-time.After(60 * time.Second):
			return false
		}
	}
	fail := func(why string) *concResult {
		// let everything end, then report a harness problem
		for i := range rel {
			if rel[i] != nil && parked[i] {
				close(rel[i])
			}
		}
		res.schedErr = fmt.Errorf("in-flight run: %s", why)
		e.kv.Gate = nil
		e.kv.ResetFaults()
		return res
	}
	start(0)
	if !wait(0, 60*time.Second) {
		return fail("first update neither reached its config write nor ended")
	}
	// the reload / leader change runs to completion while x is parked - unless it has to wait for
	// x (an implementation that serialises reloads with updates): then x goes first
	midDone := make(chan struct{})
	go func() { run(1); close(midDone) }()
	select {
	case <-midDone:
	case <-time.After(e.midWait):
		res.blocked++
		if !release(0) {
			return fail("released update did not end")
		}
		select {
		case <-midDone:
		case <-time.After(60 * time.Second):
			return fail("reload did not end")
		}
	}
	start(2)
	yReady := wait(2, e.blockedWait)
	if !yReady {
		res.blocked++ // y waits for x: only x can go first
	}
	order := []int{0, 2}
	if yFirst && yReady {
		order = []int{2, 0}
	}
	for _, i := range order {
		if i == 2 && !yReady && !parked[2] && !finished[2] {
			if !wait(2, 60*time.Second) {
				return fail("second update stuck")
			}
		}
		if !release(i) {
			return fail("released update did not end")
		}
	}
	for _, i := range []int{0, 2} {
		if !finished[i] {
			select {
			case <-done[i]:
			case <-time.After(60 * time.Second):
				return fail("update did not end")
			}
		}
	}
	e.kv.Gate = nil
	res.injected = e.kv.Injected()
	e.kv.ResetFaults()
	for _, x := range e.kv.Log() {
		if x.Kind == "Save" && x.Key == configKey && x.Fault != "" {
			for i, g := range goids {
				if g == x.Goid && i != 1 {
					res.outcomes[i].Faulted = x.Fault
				}
			}
		}
	}
	res.after = servedSecs(e.s)
	res.reloaded, res.relErr = e.reload()
	return res
}

// inflightGrid: both release orders x every fault placement, from one restored state.
func (e *env) inflightGrid(family string, x, mid, y *cop, restore func()) {
	e.caseNo++
	restore()
	before := servedSecs(e.s)
	ops := []*cop{x, mid, y}
	x.noServedClause, y.noServedClause = true, false
	for _, yFirst := range []bool{false, true} {
		for _, f := range raceFaults {
			restore()
			res := e.inflightRun(ops, yFirst, f.mode, f.at)
			e.concJudge(family, before, ops, []int{0, 1, 2}, f.mode, f.at, res)
		}
	}
	x.noServedClause = false
	restore()
}
