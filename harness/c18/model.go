package main

// Reference model for C18: what "the served configuration", "the reloaded configuration", "the
// documented reload normalisation" and "inside its domain" mean. Everything here is written from
// the property statement and the documented configuration semantics; nothing is copied from
// server/server.go or persist_options.go.

import (
	"bytes"
	"encoding/json"
	"fmt"
	"regexp"
	"sort"
	"strconv"
	"strings"

	"github.com/tikv/pd/server"
	"github.com/tikv/pd/server/config"
)

// the six dynamically configurable sections of the statement.
var sectionNames = []string{"schedule", "replication", "pd-server", "label-property", "cluster-version", "replication-mode"}

// secs is a snapshot of the six sections: name -> decoded JSON (numbers kept textually).
type secs map[string]interface{}

// decode marshals v and decodes it generically; a value that cannot be marshalled is represented
// by a string that can never equal a proper snapshot.
func decode(v interface{}) interface{} {
	b, err := json.Marshal(v)
	if err != nil {
		return fmt.Sprintf("<unmarshalable: %v: %+v>", err, v)
	}
	return decodeBytes(b)
}

func decodeBytes(b []byte) interface{} {
	dec := json.NewDecoder(bytes.NewReader(b))
	dec.UseNumber()
	var out interface{}
	if err := dec.Decode(&out); err != nil {
		return fmt.Sprintf("<undecodable: %v: %s>", err, b)
	}
	return out
}

// withList adds the element structure of a list that pd marshals as ONE comma-joined JSON string
// (typeutil.StringSlice): the JSON text alone cannot tell ["a","b,c"] from ["a","b","c"].
func withList(v interface{}, name string, list []string) interface{} {
	if m, ok := v.(map[string]interface{}); ok {
		items := make([]interface{}, len(list))
		for i, x := range list {
			items[i] = x
		}
		m[name+"(items)"] = emptyToNull(items)
	}
	return v
}

func decodeRepl(c *config.ReplicationConfig) interface{} {
	return withList(decode(c), "location-labels", c.LocationLabels)
}

func decodePD(c *config.PDServerConfig) interface{} {
	return withList(decode(c), "runtime-services", c.RuntimeServices)
}

// requested sections carry the reflective view as well
func reqSched(c *config.ScheduleConfig) interface{}     { return withFields(decode(c), c) }
func reqRepl(c *config.ReplicationConfig) interface{}   { return withFields(decodeRepl(c), c) }
func reqPD(c *config.PDServerConfig) interface{}        { return withFields(decodePD(c), c) }
func reqRM(c *config.ReplicationModeConfig) interface{} { return withFields(decode(c), c) }

// servedSecs observes the configuration the server serves (Server.Get* after a call).
func servedSecs(s *server.Server) secs {
	return secs{
		"schedule":         withFields(decode(s.GetScheduleConfig()), s.GetScheduleConfig()),
		"replication":      withFields(decodeRepl(s.GetReplicationConfig()), s.GetReplicationConfig()),
		"pd-server":        withFields(decodePD(s.GetPDServerConfig()), s.GetPDServerConfig()),
		"label-property":   decode(s.GetLabelProperty()),
		"cluster-version":  decode(s.GetClusterVersion()),
		"replication-mode": withFields(decode(s.GetReplicationModeConfig()), s.GetReplicationModeConfig()),
	}
}

// optSecs observes a PersistOptions object (the freshly reloaded one).
func optSecs(o *config.PersistOptions) secs {
	return secs{
		"schedule":         withFields(decode(o.GetScheduleConfig()), o.GetScheduleConfig()),
		"replication":      withFields(decodeRepl(o.GetReplicationConfig()), o.GetReplicationConfig()),
		"pd-server":        withFields(decodePD(o.GetPDServerConfig()), o.GetPDServerConfig()),
		"label-property":   decode(o.GetLabelPropertyConfig()),
		"cluster-version":  decode(o.GetClusterVersion()),
		"replication-mode": withFields(decode(o.GetReplicationModeConfig()), o.GetReplicationModeConfig()),
	}
}

func canon(v interface{}) string {
	b, err := json.Marshal(v) // map keys are sorted by encoding/json
	if err != nil {
		return fmt.Sprintf("<%v>", err)
	}
	return string(b)
}

func deepCopy(v interface{}) interface{} { return decodeBytes([]byte(canon(v))) }

// labelSets turns a label-property section into type -> sorted set of "key=value"; a type without
// labels is the same as an absent type (label lists are sets, the statement's comparison rule).
func labelSets(v interface{}) map[string][]string {
	out := map[string][]string{}
	m, ok := v.(map[string]interface{})
	if !ok {
		return out
	}
	for typ, l := range m {
		list, _ := l.([]interface{})
		set := map[string]bool{}
		for _, it := range list {
			im, _ := it.(map[string]interface{})
			set[fmt.Sprintf("%v=%v", im["key"], im["value"])] = true
		}
		if len(set) == 0 {
			continue
		}
		var ks []string
		for k := range set {
			ks = append(ks, k)
		}
		sort.Strings(ks)
		out[typ] = ks
	}
	return out
}

// exact is the comparison form for "the served configuration is exactly as it was": plain JSON,
// label lists as sets.
func exact(s secs) map[string]string {
	out := map[string]string{}
	for _, n := range sectionNames {
		if n == "label-property" {
			out[n] = canon(labelSets(s[n]))
		} else {
			out[n] = canon(s[n])
		}
	}
	return out
}

var defaultSchedulerTypes = []string{"balance-region", "balance-leader", "hot-region"}

var deprecatedPairs = map[string]string{
	"disable-remove-down-replica":     "enable-remove-down-replica",
	"disable-replace-offline-replica": "enable-replace-offline-replica",
	"disable-make-up-replica":         "enable-make-up-replica",
	"disable-remove-extra-replica":    "enable-remove-extra-replica",
	"disable-location-replacement":    "enable-location-replacement",
}

// emptyToNull: null, [] and {} are one and the same "nothing configured" (representation only).
func emptyToNull(v interface{}) interface{} {
	switch t := v.(type) {
	case map[string]interface{}:
		if len(t) == 0 {
			return nil
		}
		for k, x := range t {
			t[k] = emptyToNull(x)
		}
		return t
	case []interface{}:
		if len(t) == 0 {
			return nil
		}
		for i, x := range t {
			t[i] = emptyToNull(x)
		}
		return t
	}
	return v
}

// normalised applies the documented reload normalisation to a snapshot:
//   - default schedulers missing from the list are (re-)appended,
//   - deprecated flags are migrated: disable-X=true becomes enable-X=false and the old flag is
//     dropped, disable-raft-learner / store-balance-rate / trace-region-flow are dropped,
//   - schedulers-payload is display-only and not part of the configuration,
//   - label lists are sets.
func normalised(s secs) map[string]string {
	out := map[string]string{}
	for _, n := range sectionNames {
		out[n] = normSection(n, s[n])
	}
	return out
}

// normSection normalises one section (see normalised).
func normSection(n string, in interface{}) string {
	{
		v := deepCopy(in)
		if m, ok := v.(map[string]interface{}); ok {
			normFields(m)
		}
		switch n {
		case "schedule":
			if m, ok := v.(map[string]interface{}); ok {
				delete(m, "schedulers-payload")
				for old, nw := range deprecatedPairs {
					if fmt.Sprint(m[old]) == "true" {
						m[nw] = "false"
					}
					delete(m, old)
				}
				delete(m, "disable-raft-learner")
				delete(m, "store-balance-rate")
				list, _ := m["schedulers-v2"].([]interface{})
				for _, d := range defaultSchedulerTypes {
					found := false
					for _, it := range list {
						if im, ok := it.(map[string]interface{}); ok && im["type"] == d {
							found = true
						}
					}
					if !found {
						list = append(list, map[string]interface{}{"type": d, "args": nil, "disable": false, "args-payload": ""})
					}
				}
				m["schedulers-v2"] = list
			}
			v = emptyToNull(v)
		case "pd-server":
			if m, ok := v.(map[string]interface{}); ok {
				delete(m, "trace-region-flow")
			}
			v = emptyToNull(v)
		case "label-property":
			v = labelSets(v)
		default:
			v = emptyToNull(v)
		}
		return canon(v)
	}
}

// diff returns the names of the sections that differ and a short description.
func diff(a, b map[string]string) ([]string, string) {
	var names []string
	var sb strings.Builder
	for _, n := range sectionNames {
		if a[n] != b[n] {
			names = append(names, n)
			fmt.Fprintf(&sb, "[%s] %s", n, fieldDiff(a[n], b[n]))
		}
	}
	return names, sb.String()
}

// fieldDiff names the top-level keys of a section that differ (for messages only).
func fieldDiff(a, b string) string {
	am, aok := decodeBytes([]byte(a)).(map[string]interface{})
	bm, bok := decodeBytes([]byte(b)).(map[string]interface{})
	if !aok || !bok {
		return fmt.Sprintf("%s -> %s; ", clip(a), clip(b))
	}
	keys := map[string]bool{}
	for k := range am {
		keys[k] = true
	}
	for k := range bm {
		keys[k] = true
	}
	var ks []string
	for k := range keys {
		ks = append(ks, k)
	}
	sort.Strings(ks)
	var sb strings.Builder
	for _, k := range ks {
		x, y := canon(am[k]), canon(bm[k])
		if _, ok := am[k]; !ok {
			x = "<absent>"
		}
		if _, ok := bm[k]; !ok {
			y = "<absent>"
		}
		if x != y {
			fmt.Fprintf(&sb, "%s: %s -> %s; ", k, clip(x), clip(y))
		}
	}
	return sb.String()
}

func clip(s string) string {
	if len(s) > 300 {
		return s[:300] + "..."
	}
	return s
}

// ---- domains (from the statement) ----

// scheduler types that exist in this version of pd (documentation of `scheduler add` + the two
// hidden test schedulers); the generators only produce types from this list or from badSchedulerTypes.
var registeredSchedulerTypes = []string{"balance-region", "balance-leader", "hot-region", "label", "evict-leader",
	"grant-leader", "shuffle-leader", "shuffle-region", "shuffle-hot-region", "random-merge", "scatter-range"}

var badSchedulerTypes = []string{"balance-regions", "", "Balance-Region", "evict_leader", "no-such-scheduler"}

func isRegisteredType(t string) bool {
	for _, x := range registeredSchedulerTypes {
		if x == t {
			return true
		}
	}
	return false
}

// replication modes: exactly these two are documented; case / underscore variants are tolerated by
// pd and not judged (ambiguous zone).
var validModes = []string{"majority", "dr-auto-sync"}
var ambiguousModes = []string{"DR_AUTO_SYNC", "Majority", "dr_auto_sync"}
var invalidModes = []string{"bogus", "", "sync", "majority ", "dr-auto", "async"}

func inList(l []string, s string) bool {
	for _, x := range l {
		if x == s {
			return true
		}
	}
	return false
}

// domainProblems lists the values of the served configuration that are outside their domains.
func domainProblems(s *server.Server) (probs []string, ambiguous int) {
	sc := s.GetScheduleConfig()
	if !(sc.LowSpaceRatio >= 0 && sc.LowSpaceRatio <= 1) {
		probs = append(probs, "low-space-ratio-outside-[0,1]")
	}
	if !(sc.HighSpaceRatio >= 0 && sc.HighSpaceRatio <= 1) {
		probs = append(probs, "high-space-ratio-outside-[0,1]")
	}
	if !(sc.LowSpaceRatio > sc.HighSpaceRatio) {
		probs = append(probs, "low-space-ratio<=high-space-ratio")
	}
	if !(sc.TolerantSizeRatio >= 0) {
		probs = append(probs, "negative-tolerant-size-ratio")
	}
	for _, sch := range sc.Schedulers {
		if !isRegisteredType(sch.Type) {
			probs = append(probs, "unregistered-scheduler-type")
			break
		}
	}
	// documented: leader-schedule-policy is one of ["count", "size"], key-type one of ["table", "raw", "txn"]
	if !inList([]string{"count", "size"}, sc.LeaderSchedulePolicy) {
		probs = append(probs, "leader-schedule-policy-not-count-or-size")
	}
	if !inList([]string{"table", "raw", "txn"}, s.GetPDServerConfig().KeyType) {
		probs = append(probs, "key-type-not-table-raw-txn")
	}
	rc := s.GetReplicationConfig()
	if rc.IsolationLevel != "" && !inList(rc.LocationLabels, rc.IsolationLevel) {
		probs = append(probs, "isolation-level-not-a-location-label")
	}
	for _, l := range rc.LocationLabels {
		if !legalLabelKey(l) {
			probs = append(probs, "location-label-not-a-legal-label-key")
			break
		}
	}
	if s.GetPDServerConfig().FlowRoundByDigit < 0 {
		probs = append(probs, "negative-flow-round-by-digit")
	}
	mode := s.GetReplicationModeConfig().ReplicationMode
	if !inList(validModes, mode) {
		if inList(ambiguousModes, mode) {
			ambiguous++
		} else {
			probs = append(probs, "invalid-replication-mode")
		}
	}
	return probs, ambiguous
}

// legalLabelKey: pd's documented label key format - "alphanumeric characters, '-', '_', '.' or '/',
// and must start and end with an alphanumeric character. It can also contain an extra '$' at the
// beginning." (location labels are label keys; they are stored joined by ',').
func legalLabelKey(k string) bool {
	k = strings.TrimPrefix(k, "$")
	if k == "" {
		return false
	}
	alnum := func(c byte) bool { return c >= '0' && c <= '9' || c >= 'a' && c <= 'z' || c >= 'A' && c <= 'Z' }
	if !alnum(k[0]) || !alnum(k[len(k)-1]) {
		return false
	}
	for i := 0; i < len(k); i++ {
		if c := k[i]; !alnum(c) && c != '-' && c != '_' && c != '.' && c != '/' {
			return false
		}
	}
	return true
}

// cluster versions: "[v]MAJOR.MINOR.PATCH[-prerelease][+metadata]" (semantic versioning).
var semverRe = regexp.MustCompile(`^v?(0|[1-9][0-9]{0,8})\.(0|[1-9][0-9]{0,8})\.(0|[1-9][0-9]{0,8})(-[0-9A-Za-z][0-9A-Za-z.-]*)?(\+[0-9A-Za-z][0-9A-Za-z.-]*)?$`)

// parseVersion is the harness' own reading of a version string: ok=false for strings that are
// not semantic versions. canonical is the printed form without the leading "v".
func parseVersion(v string) (canonical string, ok bool) {
	m := semverRe.FindStringSubmatch(v)
	if m == nil {
		return "", false
	}
	for _, x := range m[1:4] {
		if _, err := strconv.ParseInt(x, 10, 64); err != nil {
			return "", false
		}
	}
	return strings.TrimPrefix(v, "v"), true
}
