package main

// Workload families added for the overlap / fault-in-race / object-lifetime matrix:
//   concurrentDirect   setter || setter (different and same sections), setter || Reload || setter,
//                      on the created-not-started server (memory kv) - complete small grids
//   concurrentRunning  setter || POST /store/1/limit (the raft cluster's own Persist path) and
//                      setter || leader resign+re-campaign || setter on the running server
//   getEditSet         objects returned by the getters are edited in place (nested slices / maps)
//                      and handed back to the setters (or not handed back at all)
//   reloadServing      the long-lived serving PersistOptions is reloaded from storage in place

import (
	"encoding/json"
	"fmt"
	"strings"

	"github.com/tikv/pd/server/config"
	"verif/harness/lib/kvx"
)

// consistent makes the stored configuration the served one (an accepted unfaulted update) and
// says whether a fresh reload agrees - the precondition of every family below.
func (e *env) consistent() bool {
	e.kv.ResetFaults()
	if err := e.s.SetClusterVersion("4.0.0"); err != nil {
		return false
	}
	rel, err := e.reload()
	if err != nil {
		return false
	}
	names, _ := diff(normalised(servedSecs(e.s)), normalised(rel))
	return len(names) == 0
}

func (e *env) schedCall(mut string, f func(c *config.ScheduleConfig)) *call {
	c := e.s.GetScheduleConfig()
	f(c)
	return (&call{Setter: "SetScheduleConfig", sched: c, Muts: []string{mut}}).finish()
}

func labelCall(set bool, typ, k, v string) *call {
	c := &call{Setter: "DeleteLabelProperty", typ: typ, key: k, val: v}
	if set {
		c.Setter = "SetLabelProperty"
	}
	return c.finish()
}

// directedGroups: small groups of overlapping updates, payloads computed from the current state.
func (e *env) directedGroups() [][]*call {
	s := e.s
	repl := func(f func(c *config.ReplicationConfig)) *call {
		c := s.GetReplicationConfig()
		f(c)
		return (&call{Setter: "SetReplicationConfig", repl: c}).finish()
	}
	pd := func(f func(c *config.PDServerConfig)) *call {
		c := s.GetPDServerConfig()
		f(c)
		return (&call{Setter: "SetPDServerConfig", pd: c}).finish()
	}
	rm := func(f func(c *config.ReplicationModeConfig)) *call {
		c := s.GetReplicationModeConfig().Clone()
		f(c)
		return (&call{Setter: "SetReplicationModeConfig", rm: c}).finish()
	}
	snap := e.schedCall("max-snapshot-count=in", func(c *config.ScheduleConfig) { c.MaxSnapshotCount = 7 })
	return [][]*call{
		{snap, repl(func(c *config.ReplicationConfig) { c.MaxReplicas = 5 })},
		{snap, e.schedCall("leader-schedule-limit=in", func(c *config.ScheduleConfig) { c.LeaderScheduleLimit = 9 })},
		{labelCall(true, "reject-leader", "zone", "z1"), labelCall(true, "reject-leader", "zone", "z2")},
		{labelCall(true, "x", "host", "z1"), labelCall(false, "reject-leader", "host", "z9")},
		{(&call{Setter: "SetClusterVersion", ver: "5.0.0"}).finish(), pd(func(c *config.PDServerConfig) { c.FlowRoundByDigit = 5 })},
		{rm(func(c *config.ReplicationModeConfig) { c.DRAutoSync.LabelKey = "zone" }),
			(&call{Setter: "SetLabelPropertyConfig", lp: config.LabelPropertyConfig{"x": {{Key: "zone", Value: "z1"}}}}).finish()},
		{(&call{Setter: "SetLabelPropertyConfig", lp: config.LabelPropertyConfig{"y": {{Key: "dc", Value: "d1"}}}, Muts: []string{"label-property=whole"}}).finish(), labelCall(true, "x", "dc", "d2")},
		{snap, e.schedCall("space-ratios=out:equal", func(c *config.ScheduleConfig) { c.LowSpaceRatio, c.HighSpaceRatio = 0.7, 0.7 })},
		{repl(func(c *config.ReplicationConfig) { c.IsolationLevel = "not-a-label" }), (&call{Setter: "SetClusterVersion", ver: "5.1.0"}).finish()},
	}
}

var pairOrders = [][]int{{0, 1}, {1, 0}}

func (e *env) copsOf(calls []*call) []*cop {
	var ops []*cop
	for _, c := range calls {
		p := e.copOf(c)
		if p == nil {
			return nil
		}
		ops = append(ops, p)
	}
	return ops
}

// concurrentDirect: phase "direct", memory kv.
func (e *env) concurrentDirect(g *gen, randomPairs int) {
	r := e.r
	e.phase = "concurrent"
	if !e.consistent() {
		r.Inconclusive("concurrent family: stored and served configuration could not be made equal")
		return
	}
	base := e.capture()
	restore := func() { e.restore(base) }
	opt := e.s.GetPersistOptions()
	reload := func() (bool, string) {
		if err := opt.Reload(e.store); err != nil {
			return false, err.Error()
		}
		return true, ""
	}
	for gi, calls := range e.directedGroups() {
		ops := e.copsOf(calls)
		if ops == nil {
			r.Inconclusive("concurrent family: directed group %d has no model", gi)
			return
		}
		e.grid("overlap-direct", ops, pairOrders, restore, gi == 1)
		r.Count("overlap_groups_directed", 1)
		if gi < 3 {
			// one update in flight across the reload and nothing else
			e.inflightGrid("inflight-across-reload-direct-single", e.copOf(calls[0]), reloadCop(reload), noCop(), restore)
		}
		if gi < 4 || gi == 6 {
			// the same two updates with the serving options reloaded while the first one is parked
			for _, ord := range pairOrders {
				e.inflightGrid("inflight-across-reload-direct", e.copOf(calls[ord[0]]), reloadCop(reload), e.copOf(calls[ord[1]]), restore)
				r.Count("reload_groups_directed", 1)
			}
		}
	}
	// three updates of three different sections: the first one parks inside its write and holds
	// whatever pd serialises persists with; the other two queue behind it and are let go together
	dg := e.directedGroups()
	saved := raceFaults
	raceFaults = append(append(raceFaults[:0:0], raceFaults...), struct {
		mode kvx.FaultMode
		at   int
	}{kvx.FailBefore, 3}, struct {
		mode kvx.FaultMode
		at   int
	}{kvx.LostAck, 3})
	for ti, calls := range [][]*call{{dg[0][0], dg[0][1], dg[2][0]}, {dg[4][0], dg[4][1], dg[5][0]}} {
		if ops := e.copsOf(calls); ops != nil {
			e.grid("overlap-direct-3", ops, [][]int{{0, 1, 2}, {1, 2, 0}, {2, 0, 1}}, restore, ti == 0)
			r.Count("overlap_groups_of_three", 1)
		}
	}
	raceFaults = saved
	// random pairs from evolving states
	for i := 0; i < randomPairs; i++ {
		restore()
		for k := g.rng.Intn(4); k > 0; k-- { // move the state: a few accepted updates
			e.kv.ResetFaults()
			g.next(e.s).apply(e.s)
		}
		if !e.consistent() {
			continue
		}
		st := e.capture()
		var ops []*cop
		for try := 0; try < 8 && ops == nil; try++ {
			a, b := g.next(e.s), g.next(e.s)
			if a.outOfDomain() && b.outOfDomain() {
				continue
			}
			ops = e.copsOf([]*call{a, b})
		}
		if ops == nil {
			continue
		}
		e.grid("overlap-direct", ops, pairOrders, func() { e.restore(st) }, false)
		r.Count("overlap_groups_random", 1)
		if i%5 == 0 {
			e.inflightGrid("inflight-across-reload-direct", ops[0], reloadCop(reload), ops[1], func() { e.restore(st) })
			r.Count("reload_groups_random", 1)
		}
	}
	restore()
}

// reloadServing reloads the long-lived serving options in place (as a re-campaign does) and
// compares what is served before and after. Precondition: stored == served (end of a three-way case).
func (e *env) reloadServing() {
	pre := servedSecs(e.s)
	if err := e.s.GetPersistOptions().Reload(e.store); err != nil {
		e.violate("reload-of-serving-options-fails", fmt.Sprintf("PersistOptions.Reload on the serving options: %v", err), map[string]interface{}{"case": e.caseNo, "seed": e.r.Seed})
		return
	}
	post := servedSecs(e.s)
	e.r.Eval(1)
	e.r.Count("serving_options_reloaded_in_place", 1)
	// ... and once more: a second reload in a row must find nothing left to migrate
	if err := e.s.GetPersistOptions().Reload(e.store); err == nil {
		if names, d := diff(exact(post), exact(servedSecs(e.s))); len(names) > 0 {
			e.violate(keyOf("served-config-changes-at-second-reload-in-a-row", strings.Join(names, "+")),
				"two reloads of the serving options in a row: the second one changed what is served (after first -> after second): "+d,
				map[string]interface{}{"phase": e.phase, "case": e.caseNo, "seed": e.r.Seed})
		}
	}
	if names, d := diff(normalised(pre), normalised(post)); len(names) > 0 {
		e.violate(keyOf("served-config-changes-at-reload-of-serving-options", strings.Join(names, "+")),
			"every update so far was accepted and stored or refused and rolled back, yet reloading the serving options from storage changes what is served (before -> after): "+d,
			map[string]interface{}{"phase": e.phase, "case": e.caseNo, "seed": e.r.Seed, "shard": e.r.Shard, "served_before": pre, "served_after": post})
	}
}

// ---- get-edit-set ----

type gesCase struct {
	getter string
	edit   string
	// run obtains the object, edits it in place and (variant permitting) hands it to a setter
	run func(variant int) (bool, string)
}

const (
	gesNoSet   = iota // the edited object is dropped
	gesInvalid        // handed back with an invalid value: must be refused
	gesValid          // handed back as it is
)

var gesVariants = []string{"not-set", "set-invalid", "set"}

func errOut(err error) (bool, string) {
	if err != nil {
		return false, err.Error()
	}
	return true, ""
}

func (e *env) gesCases() []gesCase {
	s := e.s
	schedSet := func(c *config.ScheduleConfig, v int) (bool, string) {
		switch v {
		case gesNoSet:
			return false, "no setter called"
		case gesInvalid:
			c.LowSpaceRatio = c.HighSpaceRatio
		}
		return errOut(s.SetScheduleConfig(*c))
	}
	replSet := func(c *config.ReplicationConfig, v int) (bool, string) {
		switch v {
		case gesNoSet:
			return false, "no setter called"
		case gesInvalid:
			c.IsolationLevel = "not-a-label"
		}
		return errOut(s.SetReplicationConfig(*c))
	}
	pdSet := func(c *config.PDServerConfig, v int) (bool, string) {
		switch v {
		case gesNoSet:
			return false, "no setter called"
		case gesInvalid:
			c.FlowRoundByDigit = -1
		}
		return errOut(s.SetPDServerConfig(*c))
	}
	lpSet := func(c config.LabelPropertyConfig, v int) (bool, string) {
		if v == gesNoSet {
			return false, "no setter called"
		}
		return errOut(s.SetLabelPropertyConfig(c)) // no validation exists: "invalid" == "valid"
	}
	rmSet := func(c *config.ReplicationModeConfig, v int) (bool, string) {
		switch v {
		case gesNoSet:
			return false, "no setter called"
		case gesInvalid:
			c.ReplicationMode = "bogus"
		}
		return errOut(s.SetReplicationModeConfig(*c))
	}
	return []gesCase{
		{"GetScheduleConfig", "Schedulers[0].Args[0]", func(v int) (bool, string) {
			c := s.GetScheduleConfig()
			c.Schedulers[0].Args[0] = "edited"
			return schedSet(c, v)
		}},
		{"GetScheduleConfig", "StoreLimit[1]", func(v int) (bool, string) {
			c := s.GetScheduleConfig()
			c.StoreLimit[1] = config.StoreLimitConfig{AddPeer: 99, RemovePeer: 99}
			return schedSet(c, v)
		}},
		{"GetScheduleConfig", "Schedulers[0].Disable", func(v int) (bool, string) {
			c := s.GetScheduleConfig()
			c.Schedulers[0].Disable = !c.Schedulers[0].Disable
			return schedSet(c, v)
		}},
		{"GetScheduleConfig", "Schedulers-filtered-in-place", func(v int) (bool, string) {
			c := s.GetScheduleConfig()
			c.Schedulers = append(c.Schedulers[:0], c.Schedulers[1:]...)
			return schedSet(c, v)
		}},
		{"GetReplicationConfig", "LocationLabels[0]", func(v int) (bool, string) {
			c := s.GetReplicationConfig()
			c.LocationLabels[0] = "edited"
			return replSet(c, v)
		}},
		{"GetReplicationConfig", "LocationLabels-filtered-in-place", func(v int) (bool, string) {
			c := s.GetReplicationConfig()
			c.LocationLabels = append(c.LocationLabels[:0], c.LocationLabels[1:]...)
			return replSet(c, v)
		}},
		{"GetPDServerConfig", "RuntimeServices[0]", func(v int) (bool, string) {
			c := s.GetPDServerConfig()
			c.RuntimeServices[0] = "edited"
			return pdSet(c, v)
		}},
		{"GetLabelProperty", "[type][0].Value", func(v int) (bool, string) {
			c := s.GetLabelProperty()
			c["reject-leader"][0].Value = "edited"
			return lpSet(c, v)
		}},
		{"GetLabelProperty", "[type]-filtered-in-place", func(v int) (bool, string) {
			c := s.GetLabelProperty()
			c["reject-leader"] = append(c["reject-leader"][:0], c["reject-leader"][1:]...)
			return lpSet(c, v)
		}},
		{"GetLabelProperty", "delete-type+add-type", func(v int) (bool, string) {
			c := s.GetLabelProperty()
			delete(c, "reject-leader")
			c["y"] = []config.StoreLabel{{Key: "dc", Value: "d1"}}
			return lpSet(c, v)
		}},
		{"GetReplicationModeConfig", "DRAutoSync.LabelKey+Primary", func(v int) (bool, string) {
			c := s.GetReplicationModeConfig()
			c.DRAutoSync.LabelKey, c.DRAutoSync.Primary = "edited", "edited"
			return rmSet(c, v)
		}},
		{"GetConfig", "Schedule.Schedulers[0].Args[0]", func(v int) (bool, string) {
			c := s.GetConfig()
			c.Schedule.Schedulers[0].Args[0] = "edited"
			return schedSet(&c.Schedule, v)
		}},
		{"GetConfig", "Replication.LocationLabels[0]", func(v int) (bool, string) {
			c := s.GetConfig()
			c.Replication.LocationLabels[0] = "edited"
			return replSet(&c.Replication, v)
		}},
		{"GetConfig", "PDServerCfg.RuntimeServices[0]", func(v int) (bool, string) {
			c := s.GetConfig()
			c.PDServerCfg.RuntimeServices[0] = "edited"
			return pdSet(&c.PDServerCfg, v)
		}},
		{"GetConfig", "LabelProperty[type][0].Value", func(v int) (bool, string) {
			c := s.GetConfig()
			c.LabelProperty["reject-leader"][0].Value = "edited"
			return lpSet(c.LabelProperty, v)
		}},
		{"GetConfig", "ReplicationMode.DRAutoSync.LabelKey", func(v int) (bool, string) {
			c := s.GetConfig()
			c.ReplicationMode.DRAutoSync.LabelKey = "edited"
			return rmSet(&c.ReplicationMode, v)
		}},
	}
}

// getEditSet: every case runs three ways from one state whose nested containers are non-empty.
func (e *env) getEditSet() {
	r := e.r
	e.phase = "get-edit-set"
	s := e.s
	e.kv.ResetFaults()
	sc := s.GetScheduleConfig()
	sc.Schedulers = append(config.SchedulerConfigs{{Type: "evict-leader", Args: []string{"1", "2"}}}, sc.Schedulers...)
	if sc.StoreLimit == nil {
		sc.StoreLimit = map[uint64]config.StoreLimitConfig{}
	}
	sc.StoreLimit[1] = config.StoreLimitConfig{AddPeer: 15, RemovePeer: 15}
	sc.LowSpaceRatio, sc.HighSpaceRatio = 0.8, 0.6
	rc := s.GetReplicationConfig()
	rc.LocationLabels, rc.IsolationLevel = []string{"zone", "rack", "host"}, ""
	pc := s.GetPDServerConfig()
	pc.RuntimeServices, pc.FlowRoundByDigit = []string{"a", "b"}, 3
	rmc := s.GetReplicationModeConfig().Clone()
	rmc.ReplicationMode = "majority"
	rmc.DRAutoSync.LabelKey = "zone"
	for _, err := range []error{
		s.SetScheduleConfig(*sc), s.SetReplicationConfig(*rc), s.SetPDServerConfig(*pc), s.SetReplicationModeConfig(*rmc),
		s.SetLabelPropertyConfig(config.LabelPropertyConfig{"reject-leader": {{Key: "zone", Value: "z1"}, {Key: "zone", Value: "z2"}, {Key: "host", Value: "h1"}}}),
	} {
		if err != nil {
			r.Inconclusive("get-edit-set setup: %v", err)
			return
		}
	}
	base := e.capture()
	for _, gc := range e.gesCases() {
		gc := gc
		for v, vn := range gesVariants {
			v := v
			e.restore(base)
			st := &step{Site: "get-edit-set:" + gc.getter, Shape: gc.edit, Class: vn, Out: v == gesInvalid,
				Desc: map[string]interface{}{"getter": gc.getter, "edited_in_place": gc.edit, "then": vn},
				do:   func() (bool, string) { return gc.run(v) }}
			e.threeWaysStep(st)
			r.Count("get_edit_set_cases", 1)
		}
	}
	e.restore(base)
}

// ---- running server ----

// storeLimitCop: POST /store/1/limit - the raft cluster's own set+Persist+rollback path.
func (ru *running) storeLimitCop(field string, rate int) *cop {
	p := &post{Path: "/store/1/limit", Body: map[string]interface{}{"type": field, "rate": rate}, Class: field, site: "POST /store/{id}/limit"}
	return &cop{Name: "POST /store/1/limit", Desc: p, sec: "schedule", kind: "store-limit-rmw", st: ru.httpStep(p),
		apply: func(v interface{}) interface{} {
			out := map[string]interface{}{}
			if m, ok := v.(map[string]interface{}); ok {
				for k, x := range m {
					out[k] = x
				}
			}
			sl := map[string]interface{}{}
			if m, ok := out["store-limit"].(map[string]interface{}); ok {
				for k, x := range m {
					sl[k] = x
				}
			}
			ent := map[string]interface{}{"add-peer": json.Number("15"), "remove-peer": json.Number("15")}
			if m, ok := sl["1"].(map[string]interface{}); ok {
				for k, x := range m {
					ent[k] = x
				}
			}
			ent[field] = json.Number(fmt.Sprint(rate))
			sl["1"] = ent
			out["store-limit"] = sl
			return out
		}}
}

func (ru *running) concurrentRunning(thorough bool) {
	r := ru.r
	ru.env.phase = "concurrent-running"
	// the raft cluster must persist through the instrumented storage: it does after a re-campaign
	if !ru.resign() {
		r.Inconclusive("concurrent-running: leader did not come back")
		return
	}
	ru.kv.ResetFaults()
	// a store limit entry for store 1 and a stored configuration equal to the served one. The
	// random updates before may have left "store-limit": null served (accepted by the setter);
	// pd's store-limit path then panics - judged like any other request, then repaired.
	setup := ru.storeLimitCop("add-peer", 15).st
	ru.caseNo++
	res := ru.exec(setup, kvx.NoFault)
	if res.panicked != nil {
		ru.judge(setup, res)
		sc := ru.s.GetScheduleConfig()
		sc.StoreLimit = map[uint64]config.StoreLimitConfig{}
		if err := ru.s.SetScheduleConfig(*sc); err != nil {
			r.Inconclusive("concurrent-running: cannot repair a null store-limit: %v", err)
			return
		}
		res = ru.exec(setup, kvx.NoFault)
	}
	if res.panicked != nil || !res.Accepted {
		r.Inconclusive("concurrent-running: setup store limit: %v %s", res.panicked, res.Msg)
		return
	}
	if !ru.consistent() {
		r.Inconclusive("concurrent-running: stored and served configuration could not be made equal")
		return
	}
	ru.syncDefaultRule()
	base := ru.captureServed()
	stored := ru.stored()
	restore := func() {
		ru.kv.ResetFaults()
		ru.restoreServed(base)
		ru.kv.Inner.Save(configKey, stored)
		ru.syncDefaultRule()
	}
	rcCall := ru.s.GetReplicationConfig()
	rcCall.MaxReplicas = 5
	partners := []*call{
		ru.schedCall("max-snapshot-count=in", func(c *config.ScheduleConfig) { c.MaxSnapshotCount = 7 }),
		(&call{Setter: "SetReplicationConfig", repl: rcCall}).finish(),
		(&call{Setter: "SetClusterVersion", ver: "5.0.0"}).finish(),
		labelCall(true, "reject-leader", "zone", "z1"),
	}
	if !thorough {
		partners = partners[:3]
	}
	for i, c := range partners {
		ops := []*cop{ru.copOf(c), ru.storeLimitCop("add-peer", 20+i)}
		ru.grid("overlap-with-cluster-persist", ops, pairOrders, restore, i == 0)
		r.Count("overlap_groups_running", 1)
		if !ru.ready() && !ru.waitLeader(true) {
			r.Inconclusive("concurrent-running: leader lost")
			return
		}
	}
	// an update parked at its config write while the leader resigns and re-campaigns
	relead := func() (bool, string) {
		ru.s.GetMember().ResetLeader()
		if !ru.waitLeader(true) {
			return false, "leader did not come back"
		}
		ru.r.Count("leader_changes_with_update_in_flight", 1)
		return true, ""
	}
	groups := [][]*call{
		{partners[0], labelCall(true, "x", "zone", "z1")},
		{partners[0], ru.schedCall("leader-schedule-limit=in", func(c *config.ScheduleConfig) { c.LeaderScheduleLimit = 9 })},
	}
	saved := raceFaults
	ru.inflightGrid("inflight-across-leader-change-single", ru.copOf(partners[0]), reloadCop(relead), noCop(), restore)
	for _, g := range groups {
		ru.inflightGrid("inflight-across-leader-change", ru.copOf(g[0]), reloadCop(relead), ru.copOf(g[1]), restore)
		r.Count("reload_groups_running", 1)
		if !ru.ready() && !ru.waitLeader(true) {
			r.Inconclusive("concurrent-running: leader lost")
			break
		}
	}
	raceFaults = saved
	restore()
}

// ---- validated lists: ONE illegal item at every position relative to the items before it ----
// (a validation loop that stops early - e.g. at the label that matches the isolation level, or at
// the first registered scheduler - lets everything standing after that item through)

var illegalLabelForms = []struct{ name, v string }{
	{"comma-inside", "rack,host"}, {"leading-space", " rack"}, {"trailing-space", "rack "}, {"inner-space", "ra ck"},
	{"empty", ""}, {"leading-slash", "/rack"}, {"trailing-dash", "rack-"}, {"non-ascii", "räck"}, {"inner-dollar", "ra$ck"},
}

var legalLabelPool = []string{"zone", "rack", "host", "dc"}

type replCase struct {
	labels []string
	iso    string
	class  string
	out    bool
}

// replGrid: label lists of length 1..maxLen x isolation level {none, each index, not in the list}
// x {no illegal label, one illegal form at each index}.
func replGrid(maxLen int, forms []struct{ name, v string }) []replCase {
	var out []replCase
	for n := 1; n <= maxLen; n++ {
		for isoAt := -2; isoAt < n; isoAt++ { // -2 none, -1 not in the list
			for illAt := -1; illAt < n; illAt++ {
				fs := forms
				if illAt < 0 {
					fs = forms[:1] // one control without an illegal label
				}
				for _, f := range fs {
					labels := append([]string(nil), legalLabelPool[:n]...)
					ill := "none"
					if illAt >= 0 {
						labels[illAt] = f.v
						ill = fmt.Sprintf("%s@%d", f.name, illAt)
					}
					c := replCase{labels: labels, out: illAt >= 0}
					isoName := "none"
					switch {
					case isoAt == -1:
						c.iso, isoName, c.out = "not-a-label", "not-in-list", true
					case isoAt >= 0:
						c.iso, isoName = labels[isoAt], fmt.Sprintf("@%d", isoAt)
						if c.iso == "" {
							isoName += "(empty)" // an empty isolation level means "none"
						}
					}
					c.class = fmt.Sprintf("labels=%d,isolation=%s,illegal=%s", n, isoName, ill)
					out = append(out, c)
				}
			}
		}
	}
	return out
}

// once executes a request unfaulted from the given state and judges it.
func (e *env) once(st *step, restore func()) {
	e.caseNo++
	restore()
	e.tainted = false
	res := e.exec(st, kvx.NoFault)
	e.judge(st, res)
}

func (e *env) listGrids() {
	r := e.r
	e.phase = "list-grid"
	if !e.consistent() {
		r.Inconclusive("list grids: stored and served configuration could not be made equal")
		return
	}
	base := e.capture()
	restore := func() { e.restore(base) }
	// location labels / isolation level
	for _, c := range replGrid(4, illegalLabelForms) {
		cfg := e.s.GetReplicationConfig()
		cfg.LocationLabels, cfg.IsolationLevel = c.labels, c.iso
		cl := "location-labels=in:" + c.class
		if c.out {
			cl = "location-labels=out:" + c.class
		}
		e.once(e.directStep((&call{Setter: "SetReplicationConfig", repl: cfg, Muts: []string{cl}}).finish()), restore)
		r.Count("list_grid_replication", 1)
	}
	// schedulers: one unregistered type at every position among registered ones
	regs := []string{"balance-region", "balance-leader", "hot-region", "label"}
	for n := 1; n <= 4; n++ {
		for at := -1; at < n; at++ {
			bad := badSchedulerTypes
			if at < 0 {
				bad = bad[:1]
			}
			for _, b := range bad {
				// the other fields of the illegal entry matter too: disabled / with arguments
				for variant := 0; variant < 3; variant++ {
					if at < 0 && variant > 0 {
						break
					}
					var l config.SchedulerConfigs
					for i := 0; i < n; i++ {
						sc := config.SchedulerConfig{Type: regs[i]}
						if i == at {
							sc.Type = b
							switch variant {
							case 1:
								sc.Disable = true
							case 2:
								sc.Args, sc.ArgsPayload = []string{"1"}, "{}"
							}
						}
						l = append(l, sc)
					}
					cl := fmt.Sprintf("schedulers=in:%d-registered", n)
					if at >= 0 {
						cl = fmt.Sprintf("schedulers=out:unregistered-type(%q)@%d/%d,entry-variant-%d", b, at, n, variant)
					}
					e.once(e.directStep(e.schedCall(cl, func(c *config.ScheduleConfig) { c.Schedulers = l })), restore)
					r.Count("list_grid_schedulers", 1)
				}
			}
		}
	}
	// label-property lists (nothing is validated there: whatever is accepted must be reloaded as it is)
	odd := []config.StoreLabel{{Key: "zone,rack", Value: "z1"}, {Key: "zone", Value: "z1,z2"}, {Key: "", Value: ""}, {Key: "zöne", Value: " z 1 "}}
	for n := 1; n <= 3; n++ {
		for at := 0; at < n; at++ {
			for oi, o := range odd {
				var l []config.StoreLabel
				for i := 0; i < n; i++ {
					if i == at {
						l = append(l, o)
					} else {
						l = append(l, config.StoreLabel{Key: legalLabelPool[i], Value: fmt.Sprintf("v%d", i)})
					}
				}
				c := &call{Setter: "SetLabelPropertyConfig", lp: config.LabelPropertyConfig{"reject-leader": l}, Muts: []string{fmt.Sprintf("label-property=edge:odd-item-%d@%d/%d", oi, at, n)}}
				e.once(e.directStep(c.finish()), restore)
				r.Count("list_grid_label_property", 1)
			}
		}
	}
	// store-limit maps (not validated by the setter either)
	oddLimits := []struct {
		id uint64
		l  config.StoreLimitConfig
	}{{0, config.StoreLimitConfig{AddPeer: 1, RemovePeer: 1}}, {^uint64(0), config.StoreLimitConfig{AddPeer: 2, RemovePeer: 3}},
		{7, config.StoreLimitConfig{AddPeer: 0, RemovePeer: 0}}, {8, config.StoreLimitConfig{AddPeer: -1, RemovePeer: 1e308}}}
	for n := 0; n <= 2; n++ {
		for oi, o := range oddLimits {
			m := map[uint64]config.StoreLimitConfig{}
			for i := 1; i <= n; i++ {
				m[uint64(i)] = config.StoreLimitConfig{AddPeer: 15, RemovePeer: 15}
			}
			m[o.id] = o.l
			e.once(e.directStep(e.schedCall(fmt.Sprintf("store-limit=edge:odd-entry-%d+%d-plain", oi, n), func(c *config.ScheduleConfig) { c.StoreLimit = m })), restore)
			r.Count("list_grid_store_limit", 1)
		}
	}
	restore()
}

// httpListGrids: the same idea through the API, where the list is expressible (labels travel
// comma-joined, so a comma inside a label cannot be said; an empty item can).
func (ru *running) httpListGrids() {
	r := ru.r
	ru.env.phase = "list-grid-http"
	ru.kv.ResetFaults()
	if !ru.consistent() {
		r.Inconclusive("http list grids: stored and served configuration could not be made equal")
		return
	}
	ru.syncDefaultRule()
	base := ru.captureServed()
	stored := ru.stored()
	restore := func() {
		ru.kv.ResetFaults()
		ru.restoreServed(base)
		ru.kv.Inner.Save(configKey, stored)
		ru.syncDefaultRule()
	}
	var forms []struct{ name, v string }
	for _, f := range illegalLabelForms {
		if !strings.Contains(f.v, ",") {
			forms = append(forms, f)
		}
	}
	run := func(p *post) bool {
		if !ru.ready() && !ru.waitLeader(true) {
			r.Inconclusive("http list grids: leader lost")
			return false
		}
		ru.once(ru.httpStep(p), restore)
		return true
	}
	for _, c := range replGrid(3, forms) {
		if len(c.labels) < 2 {
			continue
		}
		joined := strings.Join(c.labels, ",")
		cl := "in:" + c.class
		if c.out {
			cl = "out:" + c.class
		}
		// one request carrying both items
		if !run(&post{Path: "/config/replicate", Body: map[string]interface{}{"location-labels": joined, "isolation-level": c.iso}, Class: "location-labels+isolation-level=" + cl, site: "POST /config/replicate", out: c.out}) {
			return
		}
		r.Count("list_grid_http_replicate", 1)
		// the isolation level is already served, the labels arrive alone through POST /config
		if c.iso != "" && c.iso != "not-a-label" && legalLabelKey(c.iso) {
			setup := func() {
				restore()
				rc := ru.s.GetReplicationConfig()
				rc.LocationLabels, rc.IsolationLevel = []string{c.iso}, c.iso
				if ru.s.SetReplicationConfig(*rc) == nil {
					ru.syncDefaultRule()
				}
			}
			ru.once(ru.httpStep(&post{Path: "/config", Body: map[string]interface{}{"location-labels": joined}, Class: "location-labels=" + cl + ",isolation-level-served", site: "POST /config", out: c.out}), setup)
			r.Count("list_grid_http_config", 1)
		}
	}
	regs := []string{"balance-region", "balance-leader", "hot-region"}
	for at := 0; at < 3; at++ {
		for _, b := range badSchedulerTypes {
			for _, disabled := range []bool{false, true} {
				var l config.SchedulerConfigs
				for i, t := range regs {
					sc := config.SchedulerConfig{Type: t}
					if i == at {
						sc.Type, sc.Disable = b, disabled
					}
					l = append(l, sc)
				}
				if !run(&post{Path: "/config/schedule", Body: map[string]interface{}{"schedulers-v2": jsonOf(l)}, Class: fmt.Sprintf("schedulers-v2=out:unregistered-type(%q)@%d/3,disabled=%v", b, at, disabled), site: "POST /config/schedule", out: true}) {
					return
				}
				r.Count("list_grid_http_schedulers", 1)
			}
		}
	}
	restore()
}
