package main

// Execution of one configuration update under a fault mode and the oracles of C18.

import (
	"fmt"
	"sort"
	"strings"
	"time"

	"github.com/tikv/pd/server"
	"github.com/tikv/pd/server/config"
	"github.com/tikv/pd/server/core"
	"verif/harness/lib/ev"
	"verif/harness/lib/kvx"
)

const configKey = "config"

var modeNames = map[kvx.FaultMode]string{kvx.NoFault: "unfaulted", kvx.FailBefore: "fail-before", kvx.LostAck: "lost-ack"}

type env struct {
	r       *ev.Run
	s       *server.Server
	kv      *kvx.KV
	store   *core.Storage
	phase   string
	running bool
	caseNo  int
	seen    map[string]bool // violation keys already reported (witness minimisation happens once)
	tainted bool            // running phases: served and stored are known to differ (lost-ack / reported violation)
	// exploration only (never a verdict): how long a participant of an in-flight run may make no
	// progress before it is taken to be waiting for the parked update
	midWait, blockedWait, settle time.Duration
}

// step is one update request: a direct setter call or an HTTP POST.
type step struct {
	Site  string      // setter name, or "POST <path>" for handler-specific paths
	Shape string      // input classification used in violation keys (may be empty)
	Desc  interface{} // request description for witnesses
	Class string      // generator classes, for the distinct key
	Out   bool        // the generator put a value outside its stated domain
	c     *call       // direct call (nil for HTTP)
	do    func() (accepted bool, msg string)
}

type result struct {
	Mode         string `json:"fault"`
	Accepted     bool   `json:"accepted"`
	Msg          string `json:"response"`
	Injected     int64  `json:"faults_injected"`
	Writes       int64  `json:"storage_writes"`
	before       secs
	after        secs
	storedBefore string
	storedAfter  string
	panicked     interface{}
	log          []kvx.Event
	pre          *state   // typed copy of the served sections before the call
	domBefore    []string // domain problems already present before the call
	configWrites int      // applied writes of the config key during the call
}

func (e *env) stored() string {
	v, _ := e.kv.Inner.Load(configKey)
	return v
}

// exec runs st with the first write of the configuration failing as mode says.
func (e *env) exec(st *step, mode kvx.FaultMode) *result {
	res := &result{Mode: modeNames[mode]}
	res.before = servedSecs(e.s)
	res.storedBefore = e.stored()
	res.pre = e.captureServed()
	res.domBefore, _ = domainProblems(e.s)
	e.kv.ResetLog()
	if mode != kvx.NoFault {
		n := 0
		e.kv.FailAllWrites(mode, func(kind, key string) bool {
			if key == configKey {
				n++
				return n == 1
			}
			return false
		})
	} else {
		e.kv.ResetFaults()
	}
	func() {
		defer func() {
			if p := recover(); p != nil {
				res.panicked = p
			}
		}()
		res.Accepted, res.Msg = st.do()
	}()
	res.Injected, res.Writes = e.kv.Injected(), e.kv.Writes()
	e.kv.ResetFaults()
	res.after = servedSecs(e.s)
	res.storedAfter = e.stored()
	res.log = e.kv.Log() // taken last: whatever touched the store before the snapshots is in it
	for _, x := range res.log {
		if x.Kind == "Save" && x.Key == configKey && (x.Err == "" || x.Fault == "lost-ack") {
			res.configWrites++
		}
	}
	return res
}

func (e *env) witness(st *step, res *result, extra map[string]interface{}) map[string]interface{} {
	w := map[string]interface{}{
		"phase": e.phase, "case": e.caseNo, "seed": e.r.Seed, "shard": e.r.Shard,
		"request": st.Desc, "site": st.Site, "result": res,
	}
	eb, ea := exact(res.before), exact(res.after)
	changed := map[string]interface{}{}
	for _, n := range sectionNames {
		if eb[n] != ea[n] {
			bm, bok := res.before[n].(map[string]interface{})
			am, aok := res.after[n].(map[string]interface{})
			if !bok || !aok {
				changed[n] = map[string]interface{}{"served_before": res.before[n], "served_after": res.after[n]}
				continue
			}
			// only the fields of the section that differ
			fields := map[string]interface{}{}
			for k, bv := range bm {
				if av, ok := am[k]; !ok || canon(av) != canon(bv) {
					fields[k] = map[string]interface{}{"served_before": bv, "served_after": am[k]}
				}
			}
			for k, av := range am {
				if _, ok := bm[k]; !ok {
					fields[k] = map[string]interface{}{"served_before": nil, "served_after": av}
				}
			}
			changed[n] = fields
		}
	}
	w["served_sections_changed"] = changed
	if res.storedBefore == res.storedAfter {
		w["stored_config_changed"] = false
	} else {
		w["stored_config_changed"] = true
	}
	var writes []kvx.Event
	for _, x := range res.log {
		if x.Kind == "Save" || x.Kind == "Remove" {
			if len(x.Value) > 200 {
				x.Value = x.Value[:200] + "..."
			}
			writes = append(writes, x)
		}
	}
	w["storage_writes"] = writes
	for k, v := range extra {
		w[k] = v
	}
	return w
}

// firstWitness keeps, for every violation key of the run, a one-line witness (ev keeps replay files
// for the first 20 keys only); it ends up in the evidence as violation_keys.
var firstWitness = map[string]string{}

func (e *env) violate(key, what string, wit interface{}) {
	if _, ok := firstWitness[key]; !ok {
		line := clip(what)
		if m, ok := wit.(map[string]interface{}); ok {
			if s, ok := m["summary"].(string); ok {
				line = s
			}
		}
		firstWitness[key] = line
		e.r.Set("violation_keys", firstWitness)
	}
	e.seen[key] = true
	e.r.Count("violations_"+e.phase, 1)
	e.r.Violation(key, what, wit)
}

func keyOf(parts ...string) string {
	var out []string
	for _, p := range parts {
		if p != "" {
			out = append(out, p)
		}
	}
	return strings.Join(out, ":")
}

// reload is "a fresh PersistOptions reloaded from the same storage".
func (e *env) reload() (secs, error) {
	fresh := config.NewPersistOptions(&config.Config{})
	if err := fresh.Reload(e.store); err != nil {
		return nil, err
	}
	return optSecs(fresh), nil
}

// judge applies the oracles of the statement to one executed step.
func (e *env) judge(st *step, res *result) {
	r := e.r
	r.Eval(1)
	outcome := "accepted"
	if !res.Accepted {
		outcome = "rejected"
		if res.Injected > 0 {
			outcome = "failed-write"
		}
	}
	r.Count(fmt.Sprintf("%s_%s_%s", e.phase, res.Mode, outcome), 1)
	r.Count("site_"+st.Site, 1)
	if res.Injected > 0 {
		r.Count("faults_injected_"+res.Mode, 1)
	} else if res.Mode != "unfaulted" {
		r.Count("fault_planned_but_no_config_write", 1)
	}
	r.Distinct(fmt.Sprintf("%s|%s|%s|%s|%s|%s", e.phase, st.Site, st.Shape, st.Class, res.Mode, outcome))

	if res.panicked != nil {
		shape := st.Shape
		if sc := e.s.GetPersistOptions().GetScheduleConfig(); shape == "" && sc.StoreLimit == nil {
			shape = "served-store-limit-is-null"
		}
		e.violate(keyOf("panic-in-config-update", st.Site, shape), fmt.Sprintf("%s panicked: %v (served schedule section before the request: %s)", st.Site, res.panicked, clip(canon(res.before["schedule"]))), e.witness(st, res, nil))
		// a panicking request leaves no promise about the state: put the served sections back
		e.restoreServed(res.pre)
		return
	}

	if res.Accepted {
		if st.Out {
			r.Count("accepted_although_generator_marked_a_field_out_of_domain", 1) // a later field of the same call may have overwritten it; decided by the domain oracle below
		}
		// (1) what a new leader would reload == what is served (after the reload normalisation)
		rel, err := e.reload()
		if err != nil {
			e.violate(keyOf("reload-fails-after-accepted-change", st.Site), fmt.Sprintf("after an accepted %s a fresh PersistOptions cannot reload the configuration: %v", st.Site, err), e.witness(st, res, nil))
			return
		}
		ns, nr := normalised(res.after), normalised(rel)
		names, d := diff(ns, nr)
		if e.tainted && res.configWrites == 0 {
			// nothing was written by this request (no-op update) and the store is known to be ahead
			// of the served configuration because of an earlier lost acknowledgement: not this
			// request's doing
			r.Count("reload_comparisons_skipped_stored_ahead", 1)
			names = nil
		} else {
			r.Count("reload_comparisons", 1)
			// an accepted update rewrites the whole stored configuration: served == stored again
			e.tainted = len(names) > 0
		}
		if len(names) > 0 {
			e.violate(keyOf("reload-differs-from-served-after-accepted-change", st.Site, strings.Join(names, "+")),
				fmt.Sprintf("after an accepted %s (%s) a fresh PersistOptions reloads something else than what is served (served -> reloaded): %s", st.Site, res.Mode, d),
				e.witness(st, res, map[string]interface{}{"served_normalised": ns, "reloaded_normalised": nr}))
		}
		// (2) the accepted change itself is what is reloaded
		if st.c != nil {
			e.judgeReflected(st, res, rel)
		}
		// (3) accepted values are inside their domains
		probs, amb := domainProblems(e.s)
		r.Count("domain_checks", 1)
		if canon(res.before["replication-mode"]) != canon(res.after["replication-mode"]) {
			r.Count("skipped_ambiguous", int64(amb)) // variant spelling of the mode accepted: not judged
		}
		for _, p := range probs {
			if inList(res.domBefore, p) {
				continue // not introduced by this request
			}
			e.violate(keyOf("out-of-domain-value-accepted", st.Site, p),
				fmt.Sprintf("%s accepted a configuration whose %s", st.Site, p), e.witness(st, res, nil))
		}
		if st.c != nil && st.c.Setter == "SetClusterVersion" {
			if _, ok := parseVersion(st.c.ver); !ok {
				if st.c.ver == "" {
					r.Count("skipped_ambiguous", 1) // documented compatibility: empty means the base version
				} else {
					e.violate(keyOf("out-of-domain-value-accepted", st.Site, "unparsable-cluster-version"),
						fmt.Sprintf("SetClusterVersion accepted %q which is not a semantic version", st.c.ver), e.witness(st, res, nil))
				}
			}
		}
		return
	}

	// rejected (validation) or failed (injected storage failure)
	if st.Out {
		r.Count("out_of_domain_inputs_rejected", 1)
	}
	why := "rejection"
	if res.Injected > 0 {
		why = "failed-write"
	}
	eb, ea := exact(res.before), exact(res.after)
	r.Count("unchanged_comparisons", 1)
	if names, d := diff(eb, ea); len(names) > 0 {
		// one key for both kinds of refusal (the statement has one clause for them); the kind is in the text
		key := keyOf("served-changed-after-refused-update", st.Site, st.Shape)
		if st.Shape == "" {
			key = keyOf("served-changed-after-refused-update", st.Site, strings.Join(names, "+"))
		}
		what := fmt.Sprintf("%s was refused (%s, %s: %s) but the served configuration changed (before -> after): %s", st.Site, why, res.Mode, clip(res.Msg), d)
		wit := e.witness(st, res, nil)
		if !e.seen[key] && st.c != nil && !e.running {
			if mw := e.minimalLabelWitness(st, res); mw != nil {
				wit = mw
			}
		}
		e.violate(key, what, wit)
		// put the served sections back so that the following cases start from a sound state
		e.restoreServed(res.pre)
		r.Count("served_state_repaired_after_violation", 1)
	}
	if res.Mode == "fail-before" || res.Mode == "unfaulted" {
		if res.storedBefore != res.storedAfter {
			if res.Mode == "fail-before" && res.Injected > 0 {
				e.violate(keyOf("stored-config-changed-after-fail-before-send", st.Site),
					fmt.Sprintf("%s failed with the config write refused before it was sent, yet the stored configuration changed", st.Site), e.witness(st, res, nil))
			} else {
				r.Count("rejected_but_stored_config_rewritten", 1) // not stated by the property; observed only
			}
		}
	}
	if res.Mode == "lost-ack" && res.Injected > 0 && res.storedBefore != res.storedAfter {
		e.tainted = true // stored is ahead of served by construction of the fault
	}
}

// judgeReflected: the section a setter was asked to install is the one that is reloaded.
func (e *env) judgeReflected(st *step, res *result, rel secs) {
	c := st.c
	fail := func(sec, want, got string) {
		e.violate(keyOf("accepted-change-not-what-is-reloaded", st.Site, sec),
			fmt.Sprintf("%s was accepted (%s) but the reloaded %s section is not the requested one (requested -> reloaded): %s", st.Site, res.Mode, sec, fieldDiff(want, got)),
			e.witness(st, res, map[string]interface{}{"requested_normalised": want, "reloaded_normalised": got}))
	}
	e.r.Count("reflected_comparisons", 1)
	if sec, want, ok := c.requested(); ok {
		w, g := normSection(sec, want), normSection(sec, rel[sec])
		if w != g {
			fail(sec, w, g)
		}
		return
	}
	switch c.Setter {
	case "SetLabelProperty", "DeleteLabelProperty":
		want := labelSets(res.before["label-property"])
		item := c.key + "=" + c.val
		set := map[string]bool{}
		for _, x := range want[c.typ] {
			set[x] = true
		}
		if c.Setter == "SetLabelProperty" {
			set[item] = true
		} else {
			delete(set, item)
		}
		var l []string
		for x := range set {
			l = append(l, x)
		}
		sort.Strings(l)
		if len(l) == 0 {
			delete(want, c.typ)
		} else {
			want[c.typ] = l
		}
		w, g := canon(want), canon(labelSets(rel["label-property"]))
		if w != g {
			fail("label-property", w, g)
		}
	case "SetClusterVersion":
		if want, ok := parseVersion(c.ver); ok {
			if g := fmt.Sprint(rel["cluster-version"]); g != want {
				fail("cluster-version", canon(want), canon(g))
			}
		}
	}
}

// ---- phase (a): same starting state, three ways ----

type state struct {
	sched     *config.ScheduleConfig
	repl      *config.ReplicationConfig
	pd        *config.PDServerConfig
	lp        config.LabelPropertyConfig
	rm        *config.ReplicationModeConfig
	restoreCV func()
	kv        map[string]string
}

func cloneSched(c *config.ScheduleConfig) *config.ScheduleConfig {
	out := c.Clone()
	for i := range out.Schedulers {
		if out.Schedulers[i].Args != nil {
			out.Schedulers[i].Args = append([]string{}, out.Schedulers[i].Args...)
		}
	}
	return out
}

func (e *env) captureServed() *state {
	opt := e.s.GetPersistOptions()
	cv := e.s.GetClusterVersion()
	return &state{
		sched: cloneSched(opt.GetScheduleConfig()), repl: opt.GetReplicationConfig().Clone(), pd: opt.GetPDServerConfig().Clone(),
		lp: opt.GetLabelPropertyConfig().Clone(), rm: opt.GetReplicationModeConfig().Clone(),
		restoreCV: func() { c := cv; opt.SetClusterVersion(&c) },
	}
}

func (e *env) capture() *state {
	st := e.captureServed()
	st.kv = e.kv.Dump()
	return st
}

func (e *env) restoreServed(st *state) {
	opt := e.s.GetPersistOptions()
	opt.SetScheduleConfig(cloneSched(st.sched))
	opt.SetReplicationConfig(st.repl.Clone())
	opt.SetPDServerConfig(st.pd.Clone())
	opt.SetLabelPropertyConfig(st.lp.Clone())
	opt.SetReplicationModeConfig(st.rm.Clone())
	st.restoreCV()
}

func (e *env) restore(st *state) {
	e.restoreServed(st)
	e.kv.ResetFaults()
	e.kv.Restore(st.kv)
}

func (e *env) directStep(c *call) *step {
	return &step{Site: c.Setter, Shape: c.Shape, Desc: c, Class: strings.Join(c.Muts, ","), Out: c.outOfDomain(), c: c,
		do: func() (bool, string) {
			if err := c.apply(e.s); err != nil {
				return false, err.Error()
			}
			return true, ""
		}}
}

// threeWays executes c from the current state with the config write failing before it is sent,
// with its acknowledgement lost, and unfaulted; the unfaulted outcome becomes the next state.
func (e *env) threeWays(c *call) {
	e.r.Count("setter_calls", 1)
	e.threeWaysStep(e.directStep(c))
}

// threeWaysStep is threeWays for any request (the request is re-issued for every fault mode).
func (e *env) threeWaysStep(step *step) {
	e.caseNo++
	st0 := e.capture()
	if step.Out {
		e.r.Count("out_of_domain_inputs_offered", 1)
	}
	for _, mode := range []kvx.FaultMode{kvx.FailBefore, kvx.LostAck, kvx.NoFault} {
		e.restore(st0)
		e.tainted = false
		res := e.exec(step, mode)
		e.judge(step, res)
		if e.caseNo%400 == 7 && mode == kvx.NoFault {
			e.r.Sample(map[string]interface{}{"phase": e.phase, "case": e.caseNo, "call": step.Desc, "result": res})
		}
		if mode == kvx.NoFault && !res.Accepted {
			// a refused update must not leak into the next case even if an oracle just fired
			e.restore(st0)
		}
	}
}

// minimalLabelWitness re-runs a label set/delete that altered the served configuration from the
// smallest starting state that still shows it (only the label concerned), and returns that as the
// witness; nil when the call is of another kind or the reduced run does not reproduce.
func (e *env) minimalLabelWitness(st *step, orig *result) map[string]interface{} {
	c := st.c
	if c.Setter != "SetLabelProperty" && c.Setter != "DeleteLabelProperty" {
		return nil
	}
	mode := kvx.FailBefore
	if orig.Mode == "lost-ack" {
		mode = kvx.LostAck
	}
	if orig.Injected == 0 {
		return nil
	}
	saved := e.capture()
	defer e.restore(saved)
	start := config.LabelPropertyConfig{}
	if hasLabel(e.lpOf(orig.before), c.typ, c.key, c.val) {
		start[c.typ] = []config.StoreLabel{{Key: c.key, Value: c.val}}
	}
	e.kv.ResetFaults()
	if err := e.s.SetLabelPropertyConfig(start.Clone()); err != nil {
		return nil
	}
	res := e.exec(st, mode)
	if res.Accepted || canon(labelSets(res.before["label-property"])) == canon(labelSets(res.after["label-property"])) {
		return nil
	}
	e.r.Count("witness_minimised", 1)
	return map[string]interface{}{
		"minimal": map[string]interface{}{
			"start_label_property":         start,
			"call":                         fmt.Sprintf("%s(%q, %q, %q)", c.Setter, c.typ, c.key, c.val),
			"fault":                        res.Mode + " on the write of key \"config\"",
			"returned_error":               res.Msg,
			"served_label_property_before": res.before["label-property"],
			"served_label_property_after":  res.after["label-property"],
			"stored_config_changed":        res.storedBefore != res.storedAfter,
		},
		"found_in": e.witness(st, orig, nil),
	}
}

func (e *env) lpOf(s secs) config.LabelPropertyConfig {
	out := config.LabelPropertyConfig{}
	for typ, l := range labelSets(s["label-property"]) {
		for _, kvs := range l {
			i := strings.Index(kvs, "=")
			out[typ] = append(out[typ], config.StoreLabel{Key: kvs[:i], Value: kvs[i+1:]})
		}
	}
	return out
}
