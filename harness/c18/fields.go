package main

// Field-level observation (reflection, no serialisation in between) and the single-field family:
// updates that differ from the served section in exactly ONE field, for every field of every
// section, through the setters and every HTTP route that can express it; lifecycle cases.

import (
	"context"
	"encoding/json"
	"fmt"
	"reflect"
	"sort"
	"strings"
	"time"

	"github.com/tikv/pd/server"
	"github.com/tikv/pd/server/api"
	"github.com/tikv/pd/server/config"
	"verif/harness/lib/kvx"
)

// flatten walks v and records every leaf as path -> printed value. Empty and nil containers are
// the same (no leaves).
func flatten(v interface{}) map[string]interface{} {
	out := map[string]interface{}{}
	var walk func(rv reflect.Value, path string)
	walk = func(rv reflect.Value, path string) {
		switch rv.Kind() {
		case reflect.Ptr, reflect.Interface:
			if !rv.IsNil() {
				walk(rv.Elem(), path)
			}
		case reflect.Struct:
			for i := 0; i < rv.NumField(); i++ {
				if f := rv.Type().Field(i); f.PkgPath == "" {
					walk(rv.Field(i), strings.TrimPrefix(path+"."+f.Name, "."))
				}
			}
		case reflect.Slice, reflect.Array:
			for i := 0; i < rv.Len(); i++ {
				walk(rv.Index(i), fmt.Sprintf("%s[%d]", path, i))
			}
		case reflect.Map:
			keys := rv.MapKeys()
			sort.Slice(keys, func(a, b int) bool { return fmt.Sprint(keys[a]) < fmt.Sprint(keys[b]) })
			for _, k := range keys {
				walk(rv.MapIndex(k), fmt.Sprintf("%s[%v]", path, k))
			}
		default:
			out[path] = fmt.Sprintf("%v", rv.Interface())
		}
	}
	walk(reflect.ValueOf(v), "")
	return out
}

// withFields attaches the reflective view to the decoded JSON view of a section.
func withFields(dec interface{}, typed interface{}) interface{} {
	if m, ok := dec.(map[string]interface{}); ok {
		m["(fields)"] = flatten(typed)
	}
	return dec
}

// fields of the reflective view that the documented reload normalisation makes incomparable
// (deprecated flags migrated away, display-only payload, default schedulers re-added).
var droppedFieldPrefixes = []string{"SchedulersPayload", "Schedulers", "DisableLearner", "DisableRemoveDownReplica", "DisableReplaceOfflineReplica",
	"DisableMakeUpReplica", "DisableRemoveExtraReplica", "DisableLocationReplacement", "StoreBalanceRate", "TraceRegionFlow", "StoreLimit"}

func normFields(m map[string]interface{}) {
	f, ok := m["(fields)"].(map[string]interface{})
	if !ok {
		return
	}
	for k := range f {
		for _, p := range droppedFieldPrefixes {
			if k == p || strings.HasPrefix(k, p+"[") || strings.HasPrefix(k, p+".") {
				delete(f, k)
			}
		}
	}
}

func fieldsOf(sec interface{}) map[string]interface{} {
	if m, ok := sec.(map[string]interface{}); ok {
		if f, ok := m["(fields)"].(map[string]interface{}); ok {
			return f
		}
	}
	return nil
}

// changedFields lists the field paths of a section whose value differs between two snapshots.
func changedFields(a, b interface{}) []string {
	fa, fb := fieldsOf(a), fieldsOf(b)
	var out []string
	for k, v := range fa {
		if w, ok := fb[k]; !ok || w != v {
			out = append(out, k)
		}
	}
	for k := range fb {
		if _, ok := fa[k]; !ok {
			out = append(out, k)
		}
	}
	sort.Strings(out)
	return out
}

// ---- single-field family ----

type fieldSpec struct {
	sec    string       // section name
	setter string       // direct setter
	route  string       // section HTTP route ("" = only POST /config)
	path   []int        // reflect index path inside the section struct
	name   string       // Go field path, e.g. DRAutoSync.LabelKey
	tag    string       // JSON key path, e.g. dr-auto-sync.label-key
	kind   reflect.Kind // leaf kind (Duration wrapper = Int64)
	dur    bool
	str    bool // ",string" JSON option
}

func leafSpecs(sec, setter, route string, t reflect.Type, idx []int, name, tag string, out *[]fieldSpec) {
	for i := 0; i < t.NumField(); i++ {
		f := t.Field(i)
		jt := strings.Split(f.Tag.Get("json"), ",")
		if f.PkgPath != "" || jt[0] == "" || jt[0] == "-" {
			continue
		}
		sp := fieldSpec{sec: sec, setter: setter, route: route, path: append(append([]int(nil), idx...), i),
			name: strings.TrimPrefix(name+"."+f.Name, "."), tag: strings.TrimPrefix(tag+"."+jt[0], "."), kind: f.Type.Kind()}
		for _, o := range jt[1:] {
			if o == "string" {
				sp.str = true
			}
		}
		switch {
		case f.Type.String() == "typeutil.Duration":
			sp.dur, sp.kind = true, reflect.Int64
		case f.Type.Kind() == reflect.Struct:
			leafSpecs(sec, setter, route, f.Type, sp.path, sp.name, sp.tag, out)
			continue
		case f.Type.Kind() == reflect.Slice || f.Type.Kind() == reflect.Map || f.Type.Kind() == reflect.Interface:
			continue // lists and maps have their own grids
		}
		*out = append(*out, sp)
	}
}

func allFieldSpecs() []fieldSpec {
	var out []fieldSpec
	leafSpecs("schedule", "SetScheduleConfig", "/config/schedule", reflect.TypeOf(config.ScheduleConfig{}), nil, "", "", &out)
	leafSpecs("replication", "SetReplicationConfig", "/config/replicate", reflect.TypeOf(config.ReplicationConfig{}), nil, "", "", &out)
	leafSpecs("pd-server", "SetPDServerConfig", "", reflect.TypeOf(config.PDServerConfig{}), nil, "", "", &out)
	leafSpecs("replication-mode", "SetReplicationModeConfig", "/config/replication-mode", reflect.TypeOf(config.ReplicationModeConfig{}), nil, "", "", &out)
	return out
}

// fieldValue is one value to install in a field: the Go value and its spellings over HTTP.
type fieldValue struct {
	desc   string
	goVal  interface{}   // assigned through reflection (nil = HTTP only)
	jsons  []interface{} // JSON spellings of the same value
	expect string        // printed field value when accepted through HTTP ("" = not checked)
}

func (sp fieldSpec) values(cur reflect.Value) []fieldValue {
	switch {
	case sp.dur:
		var out []fieldValue
		for _, d := range []time.Duration{0, 90 * time.Minute, time.Hour} {
			out = append(out, fieldValue{desc: d.String(), goVal: d, jsons: []interface{}{d.String()}, expect: d.String()})
		}
		// equivalent spellings of one value, and a number where a duration string is expected
		out = append(out, fieldValue{desc: "60m0s-spelled-1h/3600s", jsons: []interface{}{"60m", "3600s", "1h0m0s"}, expect: time.Hour.String()},
			fieldValue{desc: "number-for-duration", jsons: []interface{}{5}})
		return out
	case sp.kind == reflect.Bool:
		v := !cur.Bool()
		fv := fieldValue{desc: fmt.Sprint(v), goVal: v, expect: fmt.Sprint(v)}
		if sp.str {
			fv.jsons = []interface{}{fmt.Sprint(v)}
			return []fieldValue{fv, {desc: "unquoted-bool", jsons: []interface{}{v}}, {desc: "bool-as-TRUE", jsons: []interface{}{"TRUE"}}}
		}
		fv.jsons = []interface{}{v}
		return []fieldValue{fv, {desc: "bool-as-string", jsons: []interface{}{fmt.Sprint(v)}}}
	case sp.kind == reflect.Uint64:
		var out []fieldValue
		for _, v := range []uint64{0, cur.Uint() + 1, 9007199254740993, ^uint64(0)} {
			out = append(out, fieldValue{desc: fmt.Sprint(v), goVal: v, jsons: []interface{}{json.Number(fmt.Sprint(v))}, expect: fmt.Sprint(v)})
		}
		return append(out, fieldValue{desc: "number-as-string", jsons: []interface{}{"7"}}, fieldValue{desc: "negative", jsons: []interface{}{-1}},
			fieldValue{desc: "fraction", jsons: []interface{}{1.5}})
	case sp.kind == reflect.Int:
		var out []fieldValue
		for _, v := range []int{0, 1, -1, int(cur.Int()) + 1} {
			out = append(out, fieldValue{desc: fmt.Sprint(v), goVal: v, jsons: []interface{}{v}, expect: fmt.Sprint(v)})
		}
		return append(out, fieldValue{desc: "number-as-string", jsons: []interface{}{"7"}})
	case sp.kind == reflect.Float64:
		var out []fieldValue
		for _, v := range []float64{0, 1, cur.Float(), cur.Float() + 0.01, -0.01, 1.01} {
			out = append(out, fieldValue{desc: fmt.Sprint(v), goVal: v, jsons: []interface{}{v}, expect: fmt.Sprint(v)})
		}
		return append(out, fieldValue{desc: "number-as-string", jsons: []interface{}{"0.5"}})
	case sp.kind == reflect.String:
		c := cur.String()
		vals := []string{"", c + "x", strings.ToUpper(c), "a/b", ".."}
		switch sp.tag {
		case "leader-schedule-policy":
			vals = append(vals, "size", "Size", "COUNT")
		case "store-limit-mode":
			vals = append(vals, "auto", "AUTO", "Manual")
		case "replication-mode":
			vals = []string{"majority", "dr-auto-sync", "Majority", "DR_AUTO_SYNC", "bogus", ""}
		case "isolation-level":
			vals = []string{"", "zone", "ZONE", "rack", "not-a-label"}
		case "dashboard-address":
			vals = []string{"auto", "none", "AUTO"}
		case "key-type":
			vals = append(vals, "raw", "RAW", "txn")
		case "region-score-formula-version":
			vals = append(vals, "v1", "V2")
		}
		var out []fieldValue
		seen := map[string]bool{}
		for _, v := range vals {
			if !seen[v] {
				seen[v] = true
				out = append(out, fieldValue{desc: fmt.Sprintf("%q", v), goVal: v, jsons: []interface{}{v}, expect: v})
			}
		}
		return append(out, fieldValue{desc: "number-for-string", jsons: []interface{}{5}})
	}
	return nil
}

func (e *env) sectionValue(sec string) reflect.Value {
	switch sec {
	case "schedule":
		return reflect.ValueOf(e.s.GetScheduleConfig()).Elem()
	case "replication":
		return reflect.ValueOf(e.s.GetReplicationConfig()).Elem()
	case "pd-server":
		return reflect.ValueOf(e.s.GetPDServerConfig()).Elem()
	}
	return reflect.ValueOf(e.s.GetReplicationModeConfig().Clone()).Elem()
}

// judgeOnlyField: an accepted single-field update changed no other field of any section.
func (e *env) judgeOnlyField(st *step, res *result, sp fieldSpec, expect string) {
	if !res.Accepted || res.panicked != nil {
		return
	}
	e.r.Count("single_field_checks", 1)
	for _, sec := range sectionNames {
		for _, p := range changedFields(res.before[sec], res.after[sec]) {
			if sec == sp.sec && (p == sp.name || strings.HasPrefix(p, sp.name+".")) {
				continue
			}
			if sec == "schedule" && strings.HasPrefix(p, "SchedulersPayload") {
				continue // display only
			}
			e.violate(keyOf("accepted-single-field-update-changed-another-field", st.Site, sp.sec),
				fmt.Sprintf("%s of %s.%s was accepted but %s.%s changed as well: %v -> %v", st.Site, sp.sec, sp.tag, sec, p, fieldsOf(res.before[sec])[p], fieldsOf(res.after[sec])[p]),
				e.witness(st, res, nil))
			return
		}
	}
	if expect != "" {
		key := sp.name
		if sp.dur {
			key += ".Duration"
		}
		if got := fmt.Sprint(fieldsOf(res.after[sp.sec])[key]); got != expect {
			if sp.tag == "dashboard-address" {
				return // the address is completed with the scheme (documented)
			}
			e.violate(keyOf("accepted-single-field-update-has-another-value", st.Site, sp.sec),
				fmt.Sprintf("%s of %s.%s = %s was accepted but the served field is %s", st.Site, sp.sec, sp.tag, expect, got), e.witness(st, res, nil))
		}
	}
}

func (e *env) onceRes(st *step, restore func()) *result {
	e.caseNo++
	restore()
	e.tainted = false
	res := e.exec(st, kvx.NoFault)
	e.judge(st, res)
	return res
}

// fieldGridDirect: every leaf field of the four struct sections x its values, through the setter.
func (e *env) fieldGridDirect() {
	r := e.r
	e.phase = "single-field"
	e.kv.ResetFaults()
	rc := e.s.GetReplicationConfig()
	rc.LocationLabels, rc.IsolationLevel = []string{"zone", "rack"}, ""
	e.s.GetPersistOptions().SetReplicationConfig(rc) // base state installed by the harness itself
	if !e.consistent() {
		r.Inconclusive("single-field grid: setup failed: stored and served configuration differ")
		return
	}
	base := e.capture()
	restore := func() { e.restore(base) }
	for _, sp := range allFieldSpecs() {
		restore()
		for _, fv := range sp.values(e.sectionValue(sp.sec).FieldByIndex(sp.path)) {
			if fv.goVal == nil {
				continue
			}
			restore()
			root := e.sectionValue(sp.sec)
			f := root.FieldByIndex(sp.path)
			if sp.dur {
				f.Field(0).SetInt(int64(fv.goVal.(time.Duration)))
			} else {
				f.Set(reflect.ValueOf(fv.goVal).Convert(f.Type()))
			}
			c := &call{Setter: sp.setter, Muts: []string{sp.tag + "=one-field:" + fv.desc}}
			switch sp.sec {
			case "schedule":
				c.sched = root.Addr().Interface().(*config.ScheduleConfig)
			case "replication":
				c.repl = root.Addr().Interface().(*config.ReplicationConfig)
			case "pd-server":
				c.pd = root.Addr().Interface().(*config.PDServerConfig)
				if sp.tag == "dashboard-address" && fv.goVal != "auto" && fv.goVal != "none" {
					continue // needs the etcd client of a running server
				}
			default:
				c.rm = root.Addr().Interface().(*config.ReplicationModeConfig)
			}
			st := e.directStep(c.finish())
			res := e.onceRes(st, restore)
			e.judgeOnlyField(st, res, sp, "")
			r.Count("single_field_direct", 1)
		}
	}
	// pd accepts, reachable from Go only: an item that contains the separator of its own
	// serialisation (the API itself splits at ','): counted, not judged
	restore()
	pc := e.s.GetPDServerConfig()
	pc.RuntimeServices = []string{"a,b"}
	if e.s.SetPDServerConfig(*pc) == nil {
		if rel, err := e.reload(); err == nil && normSection("pd-server", rel["pd-server"]) != normSection("pd-server", servedSecs(e.s)["pd-server"]) {
			r.Count("go_only_item_with_separator_accepted_and_reloaded_split", 1)
		}
	}
	restore()
}

// fieldGridHTTP: the same fields over every route that can express them, in every spelling.
func (ru *running) fieldGridHTTP() {
	r := ru.r
	ru.env.phase = "single-field-http"
	ru.kv.ResetFaults()
	// base state, installed by the harness itself (the random updates before may have left a
	// replication section that pd refuses to change through the setter, e.g. max-replicas 0 with
	// placement rules on): served section, stored configuration, default rule
	rc := ru.s.GetReplicationConfig()
	rc.MaxReplicas, rc.LocationLabels, rc.IsolationLevel = 3, []string{"zone", "rack"}, ""
	ru.s.GetPersistOptions().SetReplicationConfig(rc)
	ru.syncDefaultRule()
	if !ru.consistent() {
		rel, err := ru.reload()
		_, d := diff(normalised(servedSecs(ru.s)), normalised(rel))
		r.Inconclusive("single-field http grid: setup failed: stored and served configuration differ (%v) %s", err, clip(d))
		return
	}
	base := ru.captureServed()
	stored := ru.stored()
	restore := func() {
		ru.kv.ResetFaults()
		ru.restoreServed(base)
		ru.kv.Inner.Save(configKey, stored)
		ru.syncDefaultRule()
	}
	nest := func(tag string, v interface{}) map[string]interface{} {
		parts := strings.Split(tag, ".")
		var body interface{} = v
		for i := len(parts) - 1; i >= 0; i-- {
			body = map[string]interface{}{parts[i]: body}
		}
		return body.(map[string]interface{})
	}
	send := func(sp fieldSpec, path string, body map[string]interface{}, cl, expect string, ambiguous bool) bool {
		if !ru.ready() && !ru.waitLeader(true) {
			r.Inconclusive("single-field http grid: leader lost")
			return false
		}
		p := &post{Path: path, Body: body, Class: cl, site: "POST " + path}
		st := ru.httpStep(p)
		res := ru.onceRes(st, restore)
		if ambiguous && res.Accepted {
			r.Count("skipped_ambiguous", 1) // e.g. a key in another letter case: Go matches it, pd's own lookup does not
			expect = ""
		}
		ru.judgeOnlyField(st, res, sp, expect)
		r.Count("single_field_http", 1)
		return true
	}
	for _, sp := range allFieldSpecs() {
		if sp.tag == "use-region-storage" || sp.tag == "enable-placement-rules" {
			continue // switches the storage layout / rule manager of the running server
		}
		restore()
		vals := sp.values(ru.sectionValue(sp.sec).FieldByIndex(sp.path))
		for _, fv := range vals {
			for _, j := range fv.jsons {

				if sp.tag == "replication-mode" && (j == "dr-auto-sync" || j == "DR_AUTO_SYNC") {
					continue // starts the DR state machine (C19)
				}
				cl := sp.tag + "=one-field:" + fv.desc
				// alternative spellings go through one route only (the section route where there is one)
				if (fv.goVal != nil || sp.route == "") && !send(sp, "/config", map[string]interface{}{sp.sec + "." + sp.tag: j}, cl, fv.expect, false) {
					return
				}
				if sp.route != "" && !send(sp, sp.route, nest(sp.tag, j), cl, fv.expect, false) {
					return
				}
			}
		}
		// the key in another letter case, and an unknown sibling key, on the routes that decode JSON directly
		if len(vals) > 0 && len(vals[0].jsons) > 0 {
			j := vals[0].jsons[0]
			switch sp.tag { // a legal value: see skipped_process_killing_value_on_running_server
			case "leader-schedule-policy":
				j = "size"
			case "key-type":
				j = "raw"
			}
			up := strings.ToUpper(sp.tag)
			if !send(sp, "/config", map[string]interface{}{sp.sec + "." + up: j}, sp.tag+"=key-upper-case", "", true) {
				return
			}
			if sp.route != "" && !strings.Contains(sp.tag, ".") {
				if !send(sp, sp.route, map[string]interface{}{up: j}, sp.tag+"=key-upper-case", "", true) {
					return
				}
				if !send(sp, sp.route, map[string]interface{}{sp.tag + "-no-such-item": j}, sp.tag+"=unknown-sibling-key", "", true) {
					return
				}
			}
		}
	}
	restore()
}

// ---- lifecycle ----

// firstPersist: Persist right after construction (what a new leader's cluster does before any
// setter ran) and Reload of an empty store followed by Persist.
func firstPersist(e *env) {
	opt := e.s.GetPersistOptions()
	check := func(what string) {
		e.r.Eval(1)
		e.r.Count("lifecycle_first_persist", 1)
		rel, err := e.reload()
		if err != nil {
			e.violate("lifecycle:reload-fails:"+what, err.Error(), nil)
			return
		}
		if names, d := diff(normalised(servedSecs(e.s)), normalised(rel)); len(names) > 0 {
			e.violate(keyOf("lifecycle", "reload-differs-from-served", what, strings.Join(names, "+")),
				what+": a fresh PersistOptions reloads something else than what is served (served -> reloaded): "+d, map[string]interface{}{"seed": e.r.Seed})
		}
	}
	before := servedSecs(e.s)
	if err := opt.Reload(e.store); err != nil { // nothing stored yet: must keep what is served
		e.violate("lifecycle:reload-of-empty-store-fails", err.Error(), nil)
	} else if names, d := diff(normalised(before), normalised(servedSecs(e.s))); len(names) > 0 {
		e.violate(keyOf("lifecycle", "reload-of-empty-store-changed-served", strings.Join(names, "+")), "Reload with nothing stored changed what is served: "+d, nil)
	}
	if err := opt.Persist(e.store); err != nil {
		e.r.Inconclusive("lifecycle: first persist failed: %v", err)
		return
	}
	check("persist-right-after-construction")
}

// restart: pd-server cancels the server context BEFORE svr.Close(); the next process must serve
// the configuration the old one served (all updates were accepted-and-stored or refused).
func (ru *running) restart() {
	r := ru.r
	ru.env.phase = "restart"
	ru.kv.ResetFaults()
	if !ru.ready() || !ru.consistent() {
		r.Count("lifecycle_restart_skipped", 1)
		return
	}
	pre := servedSecs(ru.s)
	ru.s.SetStorage(ru.origStorage) // Close must release the server's own storage (region leveldb lock)
	ru.cancel()                     // context first, as cmd/pd-server does
	ru.s.Close()
	ctx, cancel := context.WithCancel(context.Background())
	s, err := server.CreateServer(ctx, ru.cfg, api.NewHandler)
	if err == nil {
		err = s.Run()
	}
	if err != nil {
		cancel()
		r.Inconclusive("restart: %v", err)
		return
	}
	ru.s, ru.cancel = s, cancel
	if !ru.waitLeader(true) {
		r.Inconclusive("restart: no leader after restart")
		return
	}
	post := servedSecs(ru.s)
	r.Eval(1)
	r.Count("lifecycle_restarts", 1)
	if names, d := diff(normalised(pre), normalised(post)); len(names) > 0 {
		ru.violate(keyOf("lifecycle", "served-config-changes-across-restart", strings.Join(names, "+")),
			"context cancelled, server closed, new server on the same data: it serves another configuration (before -> after): "+d,
			map[string]interface{}{"seed": r.Seed, "served_before": pre, "served_after": post})
	}
}
