package main

import (
	"bytes"
	"fmt"
	"math"
	"math/rand"
	"runtime/debug"
	"sync"
	"time"

	"github.com/pingcap/kvproto/pkg/metapb"
	"github.com/tikv/pd/server/core"
)

// onceCall is what is recorded about one LoadRegionsOnce call.
type onceCall struct {
	Caller        int      `json:"caller"`
	Issued        string   `json:"issued"` // first | while-first-load-in-flight | after-all-returned
	Returned      bool     `json:"returned"`
	Err           string   `json:"err,omitempty"`
	Panic         string   `json:"panic,omitempty"`
	WhileBlocked  bool     `json:"returned_while_first_load_was_blocked"`
	DeliveredIDs  int      `json:"distinct_ids_delivered_when_it_returned"`
	Undelivered   int      `json:"saved_ids_not_yet_delivered_when_it_returned"`
	UndelivSample []uint64 `json:"undelivered_sample,omitempty"`
	TwiceOverall  int      `json:"ids_delivered_more_than_once_overall"`
	PruneChecked  bool     `json:"prune_clause_checked_at_return"`
	OnlyStorage   int      `json:"in_storage_not_in_cache_at_return"`
	OnlyCache     int      `json:"in_cache_not_in_storage_at_return"`
	CacheOverlap  bool     `json:"cache_overlap_at_return"`
}

// runOnce: concurrent LoadRegionsOnce on the region-storage backend. The first caller's callback
// parks on a channel before it processes a chosen delivery (first / middle / last), so its load is
// provably in flight when the other calls are issued. Oracle (statement): whenever a call has
// returned nil, every saved-and-flushed region has been delivered (exactly once when no load
// failed; at most once per loading call otherwise) and storage scan == cache, cache overlap-free.
// Whether the other calls block or not is not judged: the bounded wait only decides when the
// first load is released.
func (x *runner) runOnce(sp Spec) {
	r := x.r
	rng := rand.New(rand.NewSource(sp.Seed))
	b, err := newBackend("regionstorage")
	if err != nil {
		r.Inconclusive("backend: %v", err)
		return
	}
	defer b.close()
	ids := genIDs(rng, sp.IDGen, sp.N)
	world := genWorld(rng, ids, "small")
	rng.Shuffle(len(world), func(i, j int) { world[i], world[j] = world[j], world[i] })
	saved := map[uint64][]byte{}
	maxID := uint64(0)
	for _, reg := range world {
		if err := b.st.SaveRegion(reg); err != nil {
			r.Inconclusive("SaveRegion: %v", err)
			return
		}
		bs, _ := reg.Marshal()
		saved[reg.Id] = bs
		if reg.Id > maxID {
			maxID = reg.Id
		}
		r.Count("ops_save_region", 1)
	}
	if !x.finishRS(b, sp) {
		return
	}
	failing := sp.Hist == "first-load-fails"
	corruptKey := ""
	if failing {
		if maxID >= math.MaxUint64-1 {
			r.Count("once_failure_variant_skipped_no_room_for_corrupt_record", 1)
			failing = false
		} else {
			garbage := string(bytes.Repeat([]byte{0xff}, 12))
			if (&metapb.Region{}).Unmarshal([]byte(garbage)) == nil {
				r.Inconclusive("harness: garbage record unmarshals")
				return
			}
			// right after the delivery at which the first load is parked when that id is free (the load
			// then fails with later regions still undelivered), else after the largest id
			corruptID := maxID + 1
			if srt := sortedIDs(ids); blockAtOf(sp, len(world)) < len(srt) {
				if c := srt[blockAtOf(sp, len(world))] + 1; saved[c] == nil {
					corruptID = c
				}
			}
			corruptKey = fmt.Sprintf("%s%020d", regionPrefix, corruptID)
			if err := b.rs.Save(corruptKey, garbage); err != nil {
				r.Inconclusive("corrupt record: %v", err)
				return
			}
		}
	}
	nCallers := 2
	if sp.W == 3 {
		nCallers = 3
	}
	blockAt := blockAtOf(sp, len(world))

	cache := core.NewBasicCluster()
	var mu sync.Mutex
	perCaller := make([]map[uint64]int, nCallers+1)
	for i := range perCaller {
		perCaller[i] = map[uint64]int{}
	}
	firstBlocked := false // under mu
	blocked := make(chan struct{})
	release := make(chan struct{})
	seen0 := 0
	mkcb := func(caller int) func(*core.RegionInfo) []*core.RegionInfo {
		return func(ri *core.RegionInfo) []*core.RegionInfo {
			if caller == 0 {
				mu.Lock()
				at := seen0
				seen0++
				if at == blockAt {
					firstBlocked = true
				}
				mu.Unlock()
				if at == blockAt {
					close(blocked)
					<-release
					mu.Lock()
					firstBlocked = false
					mu.Unlock()
				}
			}
			mu.Lock()
			perCaller[caller][ri.GetID()]++
			n := 0
			for _, m := range perCaller {
				n += len(m)
			}
			mu.Unlock()
			if n > 4*len(saved)+100 {
				panic(deliveryAbort{})
			}
			return cache.CheckAndPutRegion(ri)
		}
	}
	calls := make([]*onceCall, nCallers+1)
	done := make([]chan struct{}, nCallers+1)
	issue := func(caller int, issued string) {
		c := &onceCall{Caller: caller, Issued: issued}
		calls[caller] = c
		done[caller] = make(chan struct{})
		go func() {
			defer close(done[caller])
			var err error
			func() {
				defer func() {
					if p := recover(); p != nil {
						if _, ok := p.(deliveryAbort); ok {
							c.Panic = "harness: delivery budget exceeded"
						} else {
							c.Panic = fmt.Sprintf("%v\n%s", p, debug.Stack())
						}
					}
				}()
				err = b.st.LoadRegionsOnce(mkcb(caller))
			}()
			// the moment of return: what has been delivered so far
			mu.Lock()
			c.Returned = true
			if err != nil {
				c.Err = err.Error()
			}
			c.WhileBlocked = firstBlocked
			tot := map[uint64]int{}
			for _, m := range perCaller {
				for id, k := range m {
					tot[id] += k
				}
			}
			mu.Unlock()
			c.DeliveredIDs = len(tot)
			for id := range saved {
				if tot[id] == 0 {
					c.Undelivered++
					if len(c.UndelivSample) < 5 {
						c.UndelivSample = append(c.UndelivSample, id)
					}
				}
			}
			for _, k := range tot {
				if k > 1 {
					c.TwiceOverall++
				}
			}
			if c.WhileBlocked && err == nil && c.Panic == "" {
				// the first load is parked: storage and cache are stable, the pruning clause can be read now
				c.PruneChecked = true
				c.OnlyStorage, c.OnlyCache, c.CacheOverlap = pruneDiff(b, cache)
			}
		}()
	}
	waitAll := func(cs ...int) bool {
		for _, i := range cs {
			select {
			case <-done[i]:
			case <-time.After(3 * time.Minute):
				r.Inconclusive("LoadRegionsOnce call %d did not return within 3 minutes (%s)", i, sp)
				return false
			}
		}
		return true
	}

	issue(0, "first")
	select {
	case <-blocked:
	case <-done[0]:
		r.Inconclusive("harness: the first load returned before reaching delivery %d of %d (%s): err=%s", blockAt, len(world), sp, calls[0].Err)
		return
	case <-time.After(3 * time.Minute):
		r.Inconclusive("harness: the first load never reached delivery %d (%s)", blockAt, sp)
		close(release)
		return
	}
	r.Count("once_first_load_parked_in_flight", 1)
	if corruptKey != "" {
		// the page holding the corrupt record is already in the first loader's hands; later loads see a clean storage
		if err := b.rs.Remove(corruptKey); err != nil {
			r.Inconclusive("remove corrupt record: %v", err)
			close(release)
			return
		}
	}
	var others []int
	for c := 1; c < nCallers; c++ {
		issue(c, "while-first-load-in-flight")
		others = append(others, c)
	}
	// bounded wait: only decides when the first load is released, never a verdict
	deadline := time.After(250 * time.Millisecond)
	early, expired := 0, false
	for _, c := range others {
		if !expired {
			select {
			case <-done[c]:
				early++
				continue
			case <-deadline:
				expired = true
			}
		}
		select {
		case <-done[c]:
			early++
		default:
		}
	}
	r.Count("once_calls_issued_while_load_in_flight", int64(len(others)))
	r.Count("once_calls_returned_while_load_in_flight", int64(early))
	r.Count("once_calls_still_blocked_at_bound", int64(len(others)-early))
	close(release)
	if !waitAll(append([]int{0}, others...)...) {
		return
	}
	// a later, sequential call
	issue(nCallers, "after-all-returned")
	if !waitAll(nCallers) {
		return
	}
	finalOnlyS, finalOnlyC, finalOverlap := pruneDiff(b, cache)

	wit := map[string]interface{}{"spec": sp, "saved_and_flushed": len(saved), "first_load_parked_before_delivery": blockAt,
		"first_load_made_to_fail": failing, "calls": calls}
	anyErr := false
	for _, c := range calls {
		if c.Err != "" {
			anyErr = true
		}
	}
	for _, c := range calls {
		if c.Panic != "" {
			r.Violation("load-once-panics", "LoadRegionsOnce panicked: "+c.Panic[:min(len(c.Panic), 200)], wit)
			return
		}
	}
	if failing {
		if calls[0].Err == "" {
			r.Inconclusive("harness: the first load was meant to fail on a corrupt record but returned nil (%s)", sp)
			return
		}
		r.Count("once_first_load_failed_as_planned", 1)
	}
	for _, c := range calls {
		if c.Err != "" {
			if c.Caller == 0 && failing {
				continue
			}
			r.Violation("load-once-fails", fmt.Sprintf("LoadRegionsOnce call %d (%s) returned an error: %.200s", c.Caller, c.Issued, c.Err), wit)
			continue
		}
		r.Count("once_calls_returned_nil", 1)
		if c.Undelivered > 0 {
			if c.Issued == "after-all-returned" {
				r.Violation("load-once-returns-nil-without-completed-load", fmt.Sprintf("a LoadRegionsOnce call issued after every other call had returned got nil although %d of %d saved regions were never delivered", c.Undelivered, len(saved)), wit)
			} else {
				r.Violation("load-once-returned-before-load-completed", fmt.Sprintf("LoadRegionsOnce call %d (%s) returned nil when %d of %d saved regions had not been delivered to any callback yet", c.Caller, c.Issued, c.Undelivered, len(saved)), wit)
			}
			continue
		}
		if !anyErr && c.TwiceOverall > 0 {
			r.Violation("load-once-delivers-region-twice", fmt.Sprintf("when LoadRegionsOnce call %d returned nil, %d region(s) had been delivered more than once", c.Caller, c.TwiceOverall), wit)
		}
		if c.PruneChecked && (c.OnlyStorage > 0 || c.OnlyCache > 0 || c.CacheOverlap) {
			r.Violation("load-once-returned-before-pruning-completed", fmt.Sprintf("LoadRegionsOnce call %d returned nil while storage and cache differed (%d only in storage, %d only in cache, overlap=%v)", c.Caller, c.OnlyStorage, c.OnlyCache, c.CacheOverlap), wit)
		}
	}
	// per loading call: nothing twice
	mu.Lock()
	for caller, m := range perCaller {
		for id, k := range m {
			if k > 1 {
				wit["example_id"] = id
				r.Violation("load-once-delivers-region-twice", fmt.Sprintf("LoadRegionsOnce call %d delivered region %d %d times", caller, id, k), wit)
				break
			}
		}
	}
	mu.Unlock()
	// final state: the pruning clause
	if finalOnlyS < 0 {
		r.Inconclusive("raw scan failed (%s)", sp)
		return
	}
	nilReturned := false
	for _, c := range calls {
		if c.Err == "" {
			nilReturned = true
		}
	}
	if nilReturned && (finalOnlyS > 0 || finalOnlyC > 0 || finalOverlap) {
		wit["final"] = map[string]interface{}{"only_in_storage": finalOnlyS, "only_in_cache": finalOnlyC, "cache_overlap": finalOverlap}
		r.Violation("load-once-storage-and-cache-differ-after-all-calls", fmt.Sprintf("after all LoadRegionsOnce calls returned: %d region(s) only in storage, %d only in cache, overlap=%v", finalOnlyS, finalOnlyC, finalOverlap), wit)
	}
}

// blockAtOf: index of the delivery before which the first load is parked.
func blockAtOf(sp Spec, n int) int {
	switch sp.Keys {
	case "middle":
		return n / 2
	case "last":
		return n - 1
	}
	return 0
}

func min(a, b int) int {
	if a < b {
		return a
	}
	return b
}

// pruneDiff compares an independent storage scan with the cache content; -1 on scan errors.
func pruneDiff(b *backend, cache *core.BasicCluster) (onlyStorage, onlyCache int, overlap bool) {
	stored, err := b.rawRegions()
	if err != nil {
		return -1, -1, false
	}
	cached := map[uint64]*metapb.Region{}
	var list []*metapb.Region
	for _, m := range cache.GetMetaRegions() {
		cached[m.GetId()] = m
		list = append(list, m)
	}
	for id, s := range stored {
		c, ok := cached[id]
		if !ok {
			onlyStorage++
			continue
		}
		sb, _ := s.Marshal()
		cb, _ := c.Marshal()
		if !bytes.Equal(sb, cb) {
			onlyStorage++
		}
	}
	for id := range cached {
		if _, ok := stored[id]; !ok {
			onlyCache++
		}
	}
	return onlyStorage, onlyCache, overlapPair(list) != nil
}
