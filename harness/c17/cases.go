package main

import (
	"bytes"
	"fmt"
	"math"
	"math/rand"
	"runtime/debug"
	"sort"
	"strings"
	"sync"
	"time"

	"github.com/pingcap/kvproto/pkg/metapb"
	"github.com/tikv/pd/server/core"
	"verif/harness/lib/ev"
)

const (
	keyD4Stores  = "top-id-maxuint64-not-loaded:stores"
	keyD4Regions = "top-id-maxuint64-not-loaded:regions"
	// smallest page size the adaptive loader is known to try before giving up is not part of the
	// statement; limits that do not even let 156 consecutive items through are "infeasible" here:
	// only termination is judged for them.
	feasiblePage = 156
)

// item is what the model remembers about one live store / region.
type item struct {
	Bytes  []byte
	LW, RW float64
}

type op struct {
	Kind byte // S save, D delete, W weight, F flush
	ID   uint64
	Ver  int
}

// genHistory builds per-id op sequences (live ids end saved, dead ids end deleted) and merges them
// in a random interleaving. A store that is saved again after a delete always gets its weights set
// again (whether old weights survive a delete is not covered by the statement).
func genHistory(rng *rand.Rand, live, dead []uint64, hist string, weights bool) []op {
	var seqs [][]op
	// weighted-tombstones: every store gets explicit weights, the removed ones keep their weight records
	// (DeleteStore removes the store record only), so weight keys of stores that are gone lie between
	// the weight keys of live ones
	always := hist == "weighted-tombstones"
	for _, id := range live {
		var s []op
		s = append(s, op{'S', id, 0})
		if weights && (always || rng.Intn(2) == 0) {
			s = append(s, op{'W', id, 0})
		}
		if hist == "overwrite" || hist == "mixed" || hist == "unflushed-delete" {
			switch rng.Intn(4) {
			case 0:
				s = append(s, op{'S', id, 1})
			case 1:
				s = append(s, op{'S', id, 1}, op{'S', id, 2})
				if weights && rng.Intn(2) == 0 {
					s = append(s, op{'W', id, 1})
				}
			}
		}
		if (hist == "mixed" || hist == "unflushed-delete") && rng.Intn(5) == 0 {
			s = append(s, op{'D', id, 0}, op{'S', id, 3})
			if weights {
				s = append(s, op{'W', id, 2})
			}
		}
		seqs = append(seqs, s)
	}
	for _, id := range dead {
		s := []op{{'S', id, 0}}
		if weights && (always || rng.Intn(2) == 0) {
			s = append(s, op{'W', id, 0})
		}
		if rng.Intn(3) == 0 {
			s = append(s, op{'S', id, 1})
		}
		s = append(s, op{'D', id, 0})
		seqs = append(seqs, s)
	}
	total := 0
	for _, s := range seqs {
		total += len(s)
	}
	out := make([]op, 0, total)
	// random merge: pick a sequence with probability proportional to its remaining length
	rem := make([]int, 0, total)
	for i, s := range seqs {
		for range s {
			rem = append(rem, i)
		}
	}
	rng.Shuffle(len(rem), func(i, j int) { rem[i], rem[j] = rem[j], rem[i] })
	pos := make([]int, len(seqs))
	for _, i := range rem {
		out = append(out, seqs[i][pos[i]])
		pos[i]++
	}
	return out
}

// ---------------------------------------------------------------------------------------------

type loadResult struct {
	API       string
	Count     map[uint64]int
	First     map[uint64]item
	Delivered int
	Err       error
	Loop      *loopProven
	Budget    *budgetExceeded
	Aborted   bool // callback aborted the load after far too many deliveries
	PdPanic   string
	Pages     []pageSig
	NPages    int
	MinLimit  int
	LimitErrs int
	Removed   []string
	// pruning loads: ids the callback returned as overlaps of ANOTHER region before their own turn came
	// (the load deletes their records: they need not be delivered any more), and ids that were delivered
	// although this very load had already deleted their record
	PrunedBeforeTurn      map[uint64]bool
	DeliveredAfterDeleted []uint64
}

type deliveryAbort struct{}

type runner struct {
	r              *ev.Run
	minimized      map[string]bool // violation keys whose witness was already reduced once
	pruneKeySuffix string          // appended to the pruning-clause keys (names the history family that led there)
}

// minOnce reduces the failing id set the first time a violation key is seen.
func (x *runner) minOnce(key, kind string, ids []uint64, mode string) interface{} {
	if x.minimized[key] {
		return "see the first witness of this key"
	}
	x.minimized[key] = true
	return x.minimize(kind, ids, mode)
}

// protect runs one load and classifies how it ended.
func (x *runner) protect(res *loadResult, f func() error) {
	done := make(chan struct{})
	go func() {
		defer close(done)
		defer func() {
			if p := recover(); p != nil {
				switch v := p.(type) {
				case loopProven:
					res.Loop = &v
				case budgetExceeded:
					res.Budget = &v
				case deliveryAbort:
					res.Aborted = true
				default:
					res.PdPanic = fmt.Sprintf("%v\n%s", p, debug.Stack())
				}
			}
		}()
		res.Err = f()
	}()
	select {
	case <-done:
	case <-time.After(10 * time.Minute):
		x.r.Inconclusive("%s did not return within 10 minutes and no repeating page sequence was observed", res.API)
		x.r.Finish()
	}
}

func (x *runner) loadStores(b *backend, expect int) *loadResult {
	res := &loadResult{API: "LoadStores", Count: map[uint64]int{}, First: map[uint64]item{}}
	b.pw.begin(200 + 4*expect)
	x.protect(res, func() error {
		return b.st.LoadStores(func(s *core.StoreInfo) {
			id := s.GetID()
			res.Count[id]++
			res.Delivered++
			if res.Count[id] == 1 {
				bs, _ := s.GetMeta().Marshal()
				res.First[id] = item{Bytes: bs, LW: s.GetLeaderWeight(), RW: s.GetRegionWeight()}
			}
			if res.Delivered > 3*expect+200 {
				panic(deliveryAbort{})
			}
		})
	})
	res.Pages, res.NPages, res.MinLimit, res.LimitErrs, res.Removed = b.pw.snapshot()
	x.r.Count("loads_LoadStores", 1)
	x.r.Count("pages_observed", int64(res.NPages))
	x.r.Count("items_delivered", int64(res.Delivered))
	return res
}

// loadRegions runs LoadRegions / LoadRegionsOnce; cb (may be nil) is the cache callback.
func (x *runner) loadRegions(b *backend, api string, expect int, cb func(*core.RegionInfo) []*core.RegionInfo) *loadResult {
	res := &loadResult{API: api, Count: map[uint64]int{}, First: map[uint64]item{}, PrunedBeforeTurn: map[uint64]bool{}}
	b.pw.begin(200 + 4*expect)
	f := func(ri *core.RegionInfo) []*core.RegionInfo {
		id := ri.GetID()
		res.Count[id]++
		res.Delivered++
		if res.Count[id] == 1 {
			bs, _ := ri.GetMeta().Marshal()
			res.First[id] = item{Bytes: bs}
		}
		if res.Delivered > 3*expect+200 {
			panic(deliveryAbort{})
		}
		if res.PrunedBeforeTurn[id] {
			res.DeliveredAfterDeleted = append(res.DeliveredAfterDeleted, id)
		}
		if cb != nil {
			ov := cb(ri)
			for _, o := range ov {
				if o.GetID() != id && res.Count[o.GetID()] == 0 {
					res.PrunedBeforeTurn[o.GetID()] = true
				}
			}
			return ov
		}
		return nil
	}
	x.protect(res, func() error {
		if api == "LoadRegionsOnce" {
			return b.st.LoadRegionsOnce(f)
		}
		return b.st.LoadRegions(f)
	})
	res.Pages, res.NPages, res.MinLimit, res.LimitErrs, res.Removed = b.pw.snapshot()
	x.r.Count("loads_"+api, 1)
	x.r.Count("pages_observed", int64(res.NPages))
	x.r.Count("page_limit_errors_observed", int64(res.LimitErrs))
	x.r.Count("items_delivered", int64(res.Delivered))
	if res.MinLimit > 0 && res.MinLimit < 10000 {
		x.r.Count("loads_with_reduced_page_size", 1)
		x.r.Distinct(fmt.Sprintf("page-size-reached|%d", res.MinLimit))
	}
	return res
}

func firstN(ids []uint64, n int) []uint64 {
	sort.Slice(ids, func(i, j int) bool { return ids[i] < ids[j] })
	if len(ids) > n {
		return ids[:n]
	}
	return ids
}

func errClass(err error) string {
	s := err.Error()
	switch {
	case strings.Contains(s, "ResourceExhausted"):
		return "response-size-limit"
	case strings.Contains(s, "nmarshal"):
		return "unmarshal"
	default:
		return "other"
	}
}

// judgeLoad is the exactly-once oracle: must = items saved and not deleted (id -> content),
// may = ids whose presence the statement leaves open (delete of a still-unflushed save).
// errOK: the emulated response limit is infeasible, only termination is judged.
// Returns the ids of must that were not delivered.
func (x *runner) judgeLoad(sp Spec, kind string, res *loadResult, must map[uint64]item, may map[uint64]bool, errOK bool, extra map[string]interface{}) map[uint64]bool {
	r := x.r
	wit := map[string]interface{}{"spec": sp, "api": res.API, "live_items": len(must), "delivered": res.Delivered,
		"pages_first64": res.Pages, "pages_total": res.NPages, "smallest_page_limit": res.MinLimit}
	for k, v := range extra {
		wit[k] = v
	}
	undelivered := map[uint64]bool{}
	if res.Loop != nil {
		wit["repeating_pages"] = res.Loop
		r.Violation("load-does-not-terminate:"+res.API, fmt.Sprintf("%s never terminates: the page sequence at the KV boundary repeats with period %d and no write in between", res.API, res.Loop.Period), wit)
		return undelivered
	}
	if res.PdPanic != "" {
		wit["panic"] = res.PdPanic
		r.Violation("load-panics:"+res.API, res.API+" panicked inside pd", wit)
		return undelivered
	}
	if res.Budget != nil {
		r.Inconclusive("%s asked for %d pages for %d items without terminating; no repetition proven (%s)", res.API, res.Budget.Pages, len(must), sp)
		return undelivered
	}
	// duplicates are judged even when the load was aborted or failed later
	var dups []uint64
	for id, c := range res.Count {
		if c > 1 {
			dups = append(dups, id)
		}
	}
	if len(dups) > 0 {
		wit["duplicated_ids"] = firstN(dups, 20)
		wit["duplicated_total"] = len(dups)
		wit["aborted_after_too_many_deliveries"] = res.Aborted
		wit["minimal"] = x.minOnce("load-delivers-item-twice:"+res.API, kind, idsOf(must), "dup")
		r.Violation("load-delivers-item-twice:"+res.API, fmt.Sprintf("%s delivered %d item(s) more than once (e.g. id %d)", res.API, len(dups), firstN(dups, 1)[0]), wit)
		return undelivered
	}
	if len(res.DeliveredAfterDeleted) > 0 {
		wit["delivered_after_its_record_was_deleted"] = firstN(append([]uint64(nil), res.DeliveredAfterDeleted...), 20)
		r.Violation("load-delivers-region-whose-record-it-deleted:"+res.API+x.pruneKeySuffix, fmt.Sprintf("%s delivered region %d although the callback had returned it as an overlap of an earlier region in the same load (its record was deleted by then): the record of a delivered region must exist", res.API, res.DeliveredAfterDeleted[0]), wit)
	}
	if res.Aborted {
		r.Inconclusive("%s delivered more than 3n+200 items without duplicates (%s)", res.API, sp)
		return undelivered
	}
	if res.Err != nil {
		if errOK {
			r.Count("infeasible_limit_load_error_not_judged", 1)
			return undelivered
		}
		wit["error"] = res.Err.Error()
		r.Violation("load-fails:"+res.API+":"+errClass(res.Err), fmt.Sprintf("%s returned an error: %.200s", res.API, res.Err.Error()), wit)
		return undelivered
	}
	var missing, phantom, wrong, wrongW []uint64
	for id, it := range must {
		c := res.Count[id]
		if c == 0 {
			if res.PrunedBeforeTurn[id] {
				// the load itself removed it as an overlap of a region delivered before: not delivering it is right
				r.Count("pruned_before_own_turn_not_delivered", 1)
				continue
			}
			missing = append(missing, id)
			undelivered[id] = true
			continue
		}
		got := res.First[id]
		if !bytes.Equal(got.Bytes, it.Bytes) {
			wrong = append(wrong, id)
		}
		if kind == "stores" && (!weightEq(got.LW, it.LW) || !weightEq(got.RW, it.RW)) {
			wrongW = append(wrongW, id)
		}
	}
	for id := range res.Count {
		if _, ok := must[id]; !ok {
			if may[id] {
				r.Count("resurrected_unflushed_delete_not_judged", 1)
				continue
			}
			phantom = append(phantom, id)
		}
	}
	var rest []uint64
	for _, id := range missing {
		if id == math.MaxUint64 {
			key := keyD4Regions
			if kind == "stores" {
				key = keyD4Stores
			}
			w2 := map[string]interface{}{}
			for k, v := range wit {
				w2[k] = v
			}
			w2["missing_id"] = uint64(math.MaxUint64)
			w2["minimal"] = x.minOnce(key, kind, []uint64{math.MaxUint64}, "missing")
			r.Violation(key, fmt.Sprintf("the %s item with id 2^64-1 is saved, not deleted, and not returned by %s", strings.TrimSuffix(kind, "s"), res.API), w2)
		} else {
			rest = append(rest, id)
		}
	}
	if len(rest) > 0 {
		wit["missing_ids"] = firstN(rest, 20)
		wit["missing_total"] = len(rest)
		wit["minimal"] = x.minOnce("load-misses-items:"+res.API, kind, idsOfExcept(must, math.MaxUint64), "missing")
		r.Violation("load-misses-items:"+res.API, fmt.Sprintf("%s did not return %d of %d live item(s) (e.g. id %d)", res.API, len(rest), len(must), firstN(rest, 1)[0]), wit)
	}
	delete(wit, "minimal")
	if len(phantom) > 0 {
		wit["phantom_ids"] = firstN(phantom, 20)
		r.Violation("load-returns-deleted-or-unknown-item:"+res.API, fmt.Sprintf("%s returned %d item(s) that were deleted or never saved (e.g. id %d)", res.API, len(phantom), firstN(phantom, 1)[0]), wit)
	}
	if len(wrong) > 0 {
		wit["wrong_content_ids"] = firstN(wrong, 20)
		r.Violation("load-returns-wrong-content:"+res.API, fmt.Sprintf("%s returned %d item(s) whose content differs from the last save (e.g. id %d)", res.API, len(wrong), firstN(wrong, 1)[0]), wit)
	}
	if len(wrongW) > 0 {
		id := firstN(wrongW, 1)[0]
		wit["wrong_weight_ids"] = firstN(wrongW, 20)
		wit["example"] = map[string]interface{}{"id": id, "saved_leader_weight": must[id].LW, "saved_region_weight": must[id].RW,
			"loaded_leader_weight": res.First[id].LW, "loaded_region_weight": res.First[id].RW}
		r.Violation("load-returns-wrong-weight:LoadStores", fmt.Sprintf("LoadStores returned wrong weights for %d store(s) (e.g. id %d)", len(wrongW), id), wit)
	}
	return undelivered
}

// weightEq: numerically equal, or both NaN (compared as numbers, never as strings).
func weightEq(a, b float64) bool { return a == b || (a != a && b != b) }

func idsOf(m map[uint64]item) []uint64 {
	out := make([]uint64, 0, len(m))
	for id := range m {
		out = append(out, id)
	}
	return sortedIDs(out)
}

func idsOfExcept(m map[uint64]item, ex uint64) []uint64 {
	var out []uint64
	for id := range m {
		if id != ex {
			out = append(out, id)
		}
	}
	return sortedIDs(out)
}

// minimize reduces a failing id set by delta debugging on the plain memory backend with trivial
// contents, no history and no response limit. mode: "missing" (some saved id not delivered) or "dup".
func (x *runner) minimize(kind string, ids []uint64, mode string) interface{} {
	runs := 0
	fails := func(set []uint64) (bool, []uint64) {
		runs++
		b, err := newBackend("mem")
		if err != nil {
			return false, nil
		}
		defer b.close()
		for _, id := range set {
			if kind == "stores" {
				b.st.SaveStore(&metapb.Store{Id: id})
			} else {
				b.st.SaveRegion(&metapb.Region{Id: id})
			}
		}
		var res *loadResult
		if kind == "stores" {
			res = x.loadStores(b, len(set))
		} else {
			res = x.loadRegions(b, "LoadRegions", len(set), nil)
		}
		got := []uint64{}
		bad := false
		for _, id := range set {
			c := res.Count[id]
			if mode == "missing" && c == 0 {
				bad = true
			}
			if mode == "dup" && c > 1 {
				bad = true
			}
			for i := 0; i < c && i < 3; i++ {
				got = append(got, id)
			}
		}
		if res.Loop != nil {
			bad = true
		}
		return bad, got
	}
	ok, got := fails(ids)
	if !ok {
		return map[string]interface{}{"note": "does not reproduce on the memory backend with trivial contents, no history and no response limit; use the spec"}
	}
	cur := append([]uint64(nil), ids...)
	gran := 2
	for len(cur) > 1 && runs < 300 {
		chunk := (len(cur) + gran - 1) / gran
		reduced := false
		for i := 0; i < len(cur) && runs < 300; i += chunk {
			j := i + chunk
			if j > len(cur) {
				j = len(cur)
			}
			// complement
			comp := append(append([]uint64(nil), cur[:i]...), cur[j:]...)
			if len(comp) == 0 {
				continue
			}
			if f, g := fails(comp); f {
				cur, got, reduced = comp, g, true
				if gran > 2 {
					gran--
				}
				break
			}
		}
		if !reduced {
			if gran >= len(cur) {
				break
			}
			gran *= 2
			if gran > len(cur) {
				gran = len(cur)
			}
		}
	}
	out := map[string]interface{}{"backend": "mem", "contents": "only the id is set", "saved_count": len(cur), "runs": runs}
	if len(cur) <= 12 {
		out["saved_ids"] = cur
		out["delivered_ids"] = got
	} else {
		out["saved_ids_first"], out["saved_ids_last"] = cur[0], cur[len(cur)-1]
		out["delivered_count"] = len(got)
	}
	return out
}

// ---------------------------------------------------------------------------------------------
// limits
// ---------------------------------------------------------------------------------------------

// maxWindow returns the largest total size of w consecutive items (in id order).
func maxWindow(sizes []int, w int) int {
	if w <= 0 {
		return 0
	}
	sum, best := 0, 0
	for i, s := range sizes {
		sum += s
		if i >= w {
			sum -= sizes[i-w]
		}
		if sum > best {
			best = sum
		}
	}
	return best
}

func sizesOf(must map[uint64]item) []int {
	ids := idsOf(must)
	out := make([]int, len(ids))
	for i, id := range ids {
		out[i] = 27 + len(must[id].Bytes) // len("raft/r/") + 20 digits + value
	}
	return out
}

// setLimit configures the emulated response-size limit for spec.W; returns (limit, errOK).
func setLimit(b *backend, sp Spec, must map[uint64]item, floorPage int) (int, bool) {
	if sp.W == 0 || b.name == "regionstorage" && sp.Kind != "stores" {
		b.kvx.LoadRangeLimitBytes = 0
		return 0, false
	}
	sizes := sizesOf(must)
	if len(sizes) == 0 {
		b.kvx.LoadRangeLimitBytes = 0
		return 0, false
	}
	var lim int
	switch {
	case sp.W == -1: // nothing fits
		min := sizes[0]
		for _, s := range sizes {
			if s < min {
				min = s
			}
		}
		lim = min - 1
	case sp.W == -2: // about 50 items fit, 100 do not
		lim = maxWindow(sizes, 50)
	default:
		lim = maxWindow(sizes, sp.W)
	}
	if lim < 1 {
		lim = 1
	}
	b.kvx.LoadRangeLimitBytes = lim
	return lim, lim < maxWindow(sizes, floorPage)
}

// ---------------------------------------------------------------------------------------------
// case runners
// ---------------------------------------------------------------------------------------------

func histIDs(rng *rand.Rand, sp Spec) (live, dead []uint64) {
	nd := 0
	if sp.Hist == "delete" || sp.Hist == "mixed" || sp.Hist == "unflushed-delete" {
		nd = 1 + rng.Intn(sp.N/3+3)
	}
	if sp.Hist == "weighted-tombstones" {
		nd = 1 + sp.N/4 + rng.Intn(sp.N/2+2)
	}
	ids := genIDs(rng, sp.IDGen, sp.N+nd)
	return ids[:sp.N], ids[sp.N:]
}

func (x *runner) runStores(sp Spec) {
	r := x.r
	rng := rand.New(rand.NewSource(sp.Seed))
	b, err := newBackend(sp.Backend)
	if err != nil {
		r.Inconclusive("backend %s: %v", sp.Backend, err)
		return
	}
	defer b.close()
	if sp.Seed&1 == 0 {
		surround(b, rand.New(rand.NewSource(sp.Seed^0x5bd1e995)), false, true)
	}
	live, dead := histIDs(rng, sp)
	ops := genHistory(rng, live, dead, sp.Hist, true)
	must := map[uint64]item{}
	weights := map[uint64][2]float64{}
	big := sp.Keys == "large"
	prevStore := map[uint64]*metapb.Store{}
	oneField := int(sp.Seed & 0xff)
	for _, o := range ops {
		switch o.Kind {
		case 'S':
			s := genStore(rng, o.ID, o.Ver, big && rng.Intn(4) == 0)
			if prev := prevStore[o.ID]; prev != nil && sp.Keys == "one-field" {
				oneField++
				s = mutateStore(rng, prev, oneField) // differs from the stored record in exactly one field
				r.Count("ops_overwrite_differing_in_one_field", 1)
			}
			prevStore[o.ID] = s
			if err := b.st.SaveStore(s); err != nil {
				r.Inconclusive("SaveStore: %v", err)
				return
			}
			bs, _ := s.Marshal()
			must[o.ID] = item{Bytes: bs}
			r.Count("ops_save_store", 1)
		case 'W':
			lw, rw := genWeight(rng), genWeight(rng)
			if sp.Keys == "edge-weights" {
				lw, rw = edgeWeights[rng.Intn(len(edgeWeights))], edgeWeights[rng.Intn(len(edgeWeights))]
				r.Count("ops_save_edge_weight", 1)
			}
			if err := b.st.SaveStoreWeight(o.ID, lw, rw); err != nil {
				r.Inconclusive("SaveStoreWeight: %v", err)
				return
			}
			weights[o.ID] = [2]float64{lw, rw}
			r.Count("ops_save_weight", 1)
		case 'D':
			if err := b.st.DeleteStore(&metapb.Store{Id: o.ID}); err != nil {
				r.Inconclusive("DeleteStore: %v", err)
				return
			}
			delete(must, o.ID)
			r.Count("ops_delete_store", 1)
		}
	}
	for id, it := range must {
		it.LW, it.RW = 1, 1
		if w, ok := weights[id]; ok {
			it.LW, it.RW = w[0], w[1]
		}
		must[id] = it
	}
	if len(must) != sp.N {
		r.Inconclusive("harness: store model has %d items, spec says %d", len(must), sp.N)
		return
	}
	// LoadStores has a fixed page of 100: a response limit is only applied when 100 stores fit
	lim := 0
	if sp.W > 0 {
		lim = maxWindow(sizesOf(must), 100)
		b.kvx.LoadRangeLimitBytes = lim
	}
	res := x.loadStores(b, len(must))
	x.judgeLoad(sp, "stores", res, must, nil, false, map[string]interface{}{"response_limit_bytes": lim})
}

// regionHistory applies a generated save/overwrite/delete(/flush) history of regions and returns
// the model. For the batching backend a delete of a save that no Flush has covered yet is ambiguous.
func (x *runner) regionHistory(rng *rand.Rand, b *backend, sp Spec) (must map[uint64]item, may map[uint64]bool, ok bool) {
	r := x.r
	live, dead := histIDs(rng, sp)
	ops := genHistory(rng, live, dead, sp.Hist, false)
	must, may = map[uint64]item{}, map[uint64]bool{}
	dirty := map[uint64]bool{}
	batching := b.rs != nil
	prevRegion := map[uint64]*metapb.Region{}
	oneField := int(sp.Seed & 0xff)
	// position in id order decides the key size for the heavy-tail class
	rank := map[uint64]int{}
	for i, id := range sortedIDs(append(append([]uint64(nil), live...), dead...)) {
		rank[id] = i
	}
	total := len(live) + len(dead)
	flush := func() bool {
		if err := b.st.Flush(); err != nil {
			r.Inconclusive("Flush: %v", err)
			return false
		}
		dirty = map[uint64]bool{}
		r.Count("ops_flush", 1)
		return true
	}
	for _, o := range ops {
		switch o.Kind {
		case 'S':
			reg := genRegion(rng, o.ID, o.Ver, sp.Keys, rank[o.ID], total)
			if prev := prevRegion[o.ID]; prev != nil && sp.Keys == "one-field" {
				oneField++
				reg = mutateRegion(rng, prev, oneField) // differs from the stored record in exactly one field
				r.Count("ops_overwrite_differing_in_one_field", 1)
			}
			prevRegion[o.ID] = reg
			if err := b.st.SaveRegion(reg); err != nil {
				r.Inconclusive("SaveRegion: %v", err)
				return nil, nil, false
			}
			bs, _ := reg.Marshal()
			must[o.ID] = item{Bytes: bs}
			delete(may, o.ID)
			dirty[o.ID] = true
			r.Count("ops_save_region", 1)
		case 'D':
			if batching && dirty[o.ID] {
				if sp.Hist == "unflushed-delete" && rng.Intn(2) == 0 {
					may[o.ID] = true
					r.Count("ops_delete_of_unflushed_save", 1)
				} else if !flush() {
					return nil, nil, false
				}
			}
			if err := b.st.DeleteRegion(&metapb.Region{Id: o.ID}); err != nil {
				r.Inconclusive("DeleteRegion: %v", err)
				return nil, nil, false
			}
			delete(must, o.ID)
			r.Count("ops_delete_region", 1)
		}
		if batching && rng.Intn(150) == 0 && !flush() {
			return nil, nil, false
		}
	}
	if len(must) != sp.N {
		r.Inconclusive("harness: region model has %d items, spec says %d", len(must), sp.N)
		return nil, nil, false
	}
	return must, may, true
}

// finishRS makes the writes durable the way the spec says: Flush returned, or Close returned and
// the directory is opened again with fresh objects.
func (x *runner) finishRS(b *backend, sp Spec) bool {
	if b.rs == nil {
		return true
	}
	if sp.End == "close" {
		if err := b.closeReopenRS(); err != nil {
			x.r.Violation("region-storage-close-or-reopen-fails", fmt.Sprintf("Close / reopen of the region storage failed: %v", err), map[string]interface{}{"spec": sp})
			return false
		}
		x.r.Count("ops_close_reopen", 1)
		return true
	}
	if err := b.st.Flush(); err != nil {
		x.r.Inconclusive("Flush: %v", err)
		return false
	}
	x.r.Count("ops_flush", 1)
	return true
}

func (x *runner) runRegions(sp Spec) {
	r := x.r
	rng := rand.New(rand.NewSource(sp.Seed))
	b, err := newBackend(sp.Backend)
	if err != nil {
		r.Inconclusive("backend %s: %v", sp.Backend, err)
		return
	}
	defer b.close()
	if sp.Seed&1 == 0 {
		surround(b, rand.New(rand.NewSource(sp.Seed^0x5bd1e995)), true, false)
	}
	must, may, ok := x.regionHistory(rng, b, sp)
	if !ok || !x.finishRS(b, sp) {
		return
	}
	lim, errOK := setLimit(b, sp, must, feasiblePage)
	if sp.W < 0 {
		if errOK {
			r.Count("infeasible_limit_cases", 1)
		} else {
			r.Count("infeasible_limit_cases_that_were_feasible", 1)
		}
	}
	extra := map[string]interface{}{"response_limit_bytes": lim}
	// LoadRegionsOnce first (with the region storage a second call is documented to do nothing),
	// then an independent full LoadRegions.
	res := x.loadRegions(b, "LoadRegionsOnce", len(must), nil)
	x.judgeLoad(sp, "regions", res, must, may, errOK, extra)
	res2 := x.loadRegions(b, "LoadRegions", len(must), nil)
	x.judgeLoad(sp, "regions", res2, must, may, errOK, extra)
	if sp.W > 0 && res2.MinLimit > 0 && res2.MinLimit < 10000 {
		r.Count("cases_limit_forced_page_down", 1)
	}
}

// overlapPair finds two overlapping regions by brute force (nil if none).
func overlapPair(regs []*metapb.Region) []uint64 {
	s := append([]*metapb.Region(nil), regs...)
	sort.Slice(s, func(i, j int) bool { return bytes.Compare(s[i].StartKey, s[j].StartKey) < 0 })
	for i := 0; i+1 < len(s); i++ {
		// sorted by start: i overlaps i+1 iff end(i) is +inf or end(i) > start(i+1)
		if len(s[i].EndKey) == 0 || bytes.Compare(s[i].EndKey, s[i+1].StartKey) > 0 {
			return []uint64{s[i].Id, s[i+1].Id}
		}
	}
	return nil
}

func (x *runner) runPrune(sp Spec) {
	r := x.r
	rng := rand.New(rand.NewSource(sp.Seed))
	b, err := newBackend(sp.Backend)
	if err != nil {
		r.Inconclusive("backend %s: %v", sp.Backend, err)
		return
	}
	defer b.close()
	if sp.Seed&1 == 0 {
		surround(b, rand.New(rand.NewSource(sp.Seed^0x5bd1e995)), true, false)
	}
	ids := genIDs(rng, sp.IDGen, sp.N)
	world := genWorld(rng, ids, sp.Keys)
	rng.Shuffle(len(world), func(i, j int) { world[i], world[j] = world[j], world[i] })
	must := map[uint64]item{}
	for _, reg := range world {
		if err := b.st.SaveRegion(reg); err != nil {
			r.Inconclusive("SaveRegion: %v", err)
			return
		}
		bs, _ := reg.Marshal()
		must[reg.Id] = item{Bytes: bs}
		r.Count("ops_save_region", 1)
	}
	if !x.finishRS(b, sp) {
		return
	}
	if p := overlapPair(world); p != nil {
		r.Count("prune_cases_with_overlapping_leftovers", 1)
	}
	lim, errOK := setLimit(b, sp, must, feasiblePage)
	cache := core.NewBasicCluster()
	reported := map[uint64]bool{}
	api := "LoadRegions"
	if rng.Intn(3) == 0 {
		api = "LoadRegionsOnce"
	}
	res := x.loadRegions(b, api, len(must), func(ri *core.RegionInfo) []*core.RegionInfo {
		ov := cache.CheckAndPutRegion(ri)
		for _, o := range ov {
			reported[o.GetID()] = true
		}
		return ov
	})
	extra := map[string]interface{}{"response_limit_bytes": lim, "callback": "BasicCluster.CheckAndPutRegion"}
	undelivered := x.judgeLoad(sp, "regions", res, must, nil, errOK, extra)
	if res.Err != nil || res.Loop != nil || res.PdPanic != "" || res.Budget != nil || res.Aborted {
		return
	}
	x.checkPruned(sp, b, api, res, must, cache, reported, undelivered, lim)
}

// checkPruned is the pruning clause after a completed load into cache: independent storage scan ==
// cache content, cache overlap-free, the loader removed only what the callback reported.
func (x *runner) checkPruned(sp Spec, b *backend, api string, res *loadResult, must map[uint64]item, cache *core.BasicCluster, reported, undelivered map[uint64]bool, lim int) {
	r := x.r
	r.Count("prune_regions_reported_by_callback", int64(len(reported)))
	// storage scan (independent of the paging code) vs cache content
	stored, err := b.rawRegions()
	if err != nil {
		r.Inconclusive("raw scan: %v", err)
		return
	}
	cached := map[uint64]*metapb.Region{}
	var cachedList []*metapb.Region
	for _, m := range cache.GetMetaRegions() {
		cached[m.GetId()] = m
		cachedList = append(cachedList, m)
	}
	wit := map[string]interface{}{"spec": sp, "api": api, "saved": len(must), "stored_after": len(stored), "cached_after": len(cached),
		"reported_by_callback": len(reported), "response_limit_bytes": lim}
	var onlyStorage, onlyCache, differ []uint64
	for id, s := range stored {
		if undelivered[id] {
			continue // already reported by the exactly-once oracle; do not report its consequence again
		}
		c, ok := cached[id]
		if !ok {
			onlyStorage = append(onlyStorage, id)
			continue
		}
		sb, _ := s.Marshal()
		cb, _ := c.Marshal()
		if !bytes.Equal(sb, cb) {
			differ = append(differ, id)
		}
	}
	for id := range cached {
		if _, ok := stored[id]; !ok {
			onlyCache = append(onlyCache, id)
		}
	}
	describe := func(id uint64) interface{} {
		m := must[id]
		reg := &metapb.Region{}
		reg.Unmarshal(m.Bytes)
		return map[string]interface{}{"id": id, "start": fmt.Sprintf("%x", trunc(reg.StartKey)), "end": fmt.Sprintf("%x", trunc(reg.EndKey)), "version": reg.GetRegionEpoch().GetVersion(),
			"reported_by_callback": reported[id]}
	}
	if len(onlyStorage) > 0 {
		id := firstN(onlyStorage, 1)[0]
		wit["only_in_storage"] = firstN(onlyStorage, 20)
		wit["example"] = describe(id)
		key := "prune-leftover-stays-in-storage" + x.pruneKeySuffix
		r.Violation(key, fmt.Sprintf("after %s(CheckAndPutRegion) %d region(s) are still in storage but not in the cache (e.g. id %d)", api, len(onlyStorage), id), wit)
	}
	if len(onlyCache) > 0 {
		id := firstN(onlyCache, 1)[0]
		wit["only_in_cache"] = firstN(onlyCache, 20)
		wit["example"] = describe(id)
		r.Violation("prune-deletes-region-kept-in-cache"+x.pruneKeySuffix, fmt.Sprintf("after %s(CheckAndPutRegion) %d cached region(s) are gone from storage (e.g. id %d)", api, len(onlyCache), id), wit)
	}
	if len(differ) > 0 {
		wit["content_differs"] = firstN(differ, 20)
		r.Violation("prune-storage-and-cache-content-differ"+x.pruneKeySuffix, fmt.Sprintf("after %s(CheckAndPutRegion) %d region(s) differ between storage and cache", api, len(differ)), wit)
	}
	if p := overlapPair(cachedList); p != nil {
		wit["overlapping_pair"] = []interface{}{describe(p[0]), describe(p[1])}
		r.Violation("prune-cache-has-overlapping-regions"+x.pruneKeySuffix, fmt.Sprintf("after %s(CheckAndPutRegion) the cache holds overlapping regions %d and %d", api, p[0], p[1]), wit)
	}
	// deletions performed by the loader (observable on non-batching backends) must be what the callback reported
	for _, k := range res.Removed {
		if id, ok := idOfKey(k, regionPrefix); ok && !reported[id] {
			wit["removed_key"] = k
			r.Violation("prune-deletes-region-not-reported-by-callback", fmt.Sprintf("the loader removed region %d which the callback did not report", id), wit)
			break
		}
	}
	r.Count("prune_regions_removed_from_storage", int64(len(must)-len(stored)))
	if len(stored) < len(must) {
		r.Count("prune_cases_that_pruned", 1)
	}
}

func trunc(b []byte) []byte {
	if len(b) > 16 {
		return b[:16]
	}
	return b
}

// runCrash: region storage, saves / overwrites / flushes; at a point between two flushes the
// (quiescent) LevelDB directory is copied = the files a stopped process would leave behind. The
// copy is opened with fresh objects and loaded.
func (x *runner) runCrash(sp Spec) {
	r := x.r
	rng := rand.New(rand.NewSource(sp.Seed))
	b, err := newBackend("regionstorage")
	if err != nil {
		r.Inconclusive("backend: %v", err)
		return
	}
	defer b.close()
	ids := genIDs(rng, sp.IDGen, sp.N)
	type st struct {
		versions [][]byte
		flushed  int // index into versions covered by the last explicit Flush, -1 none
		dirty    bool
	}
	model := map[uint64]*st{}
	// op list: N first saves in random order interleaved with overwrites; explicit flushes at random points
	var seq []uint64
	for _, id := range ids {
		seq = append(seq, id)
		if rng.Intn(5) == 0 {
			seq = append(seq, id)
		}
	}
	rng.Shuffle(len(seq), func(i, j int) { seq[i], seq[j] = seq[j], seq[i] })
	flushEvery := []int{0, 37, 100, 150, 260}[rng.Intn(5)] // 0 = never explicitly
	sinceFlush := 0
	var lastWrite time.Time
	for i, id := range seq {
		m := model[id]
		if m == nil {
			m = &st{flushed: -1}
			model[id] = m
		}
		reg := genRegion(rng, id, len(m.versions), "small", 0, 1)
		lastWrite = time.Now()
		if err := b.st.SaveRegion(reg); err != nil {
			r.Inconclusive("SaveRegion: %v", err)
			return
		}
		bs, _ := reg.Marshal()
		m.versions = append(m.versions, bs)
		m.dirty = true
		sinceFlush++
		r.Count("ops_save_region", 1)
		if flushEvery > 0 && (i+1)%flushEvery == 0 {
			if err := b.st.Flush(); err != nil {
				r.Inconclusive("Flush: %v", err)
				return
			}
			for _, mm := range model {
				if mm.dirty {
					mm.dirty, mm.flushed = false, len(mm.versions)-1
				}
			}
			sinceFlush = 0
			r.Count("ops_flush", 1)
		}
	}
	// what the medium holds right now (observation only; nothing is demanded from it)
	visible, err := b.rawRegions()
	if err != nil {
		r.Inconclusive("raw scan: %v", err)
		return
	}
	unflushedVisible := 0
	for id, m := range model {
		if _, ok := visible[id]; ok && m.flushed < 0 {
			unflushedVisible++
		}
	}
	if sinceFlush >= 100 {
		r.Count("crash_cases_with_100_or_more_saves_since_last_flush", 1)
		if unflushedVisible > 0 || len(visible) > 0 && flushEvery == 0 {
			r.Count("crash_cases_where_storage_wrote_a_batch_on_its_own", 1)
		}
	}
	dst, err := tempDir("copy")
	if err != nil {
		r.Inconclusive("tempdir: %v", err)
		return
	}
	b.dirs = append(b.dirs, dst)
	if err := copyDir(b.rsDir, dst); err != nil {
		r.Inconclusive("copy: %v", err)
		return
	}
	if time.Since(lastWrite) > 2*time.Second {
		// the background flusher (3 s after the last save) may have written while the files were copied:
		// the copy is then not the image of one instant
		r.Count("skipped_copy_not_quiescent", 1)
		return
	}
	r.Count("crash_copies", 1)
	cp := &backend{name: "regionstorage", kvx: b.kvx, pw: b.pw}
	if err := cp.openRS(dst); err != nil {
		r.Violation("leveldb-copy-open-fails", fmt.Sprintf("the copied region-storage directory cannot be opened: %v", err), map[string]interface{}{"spec": sp})
		return
	}
	defer cp.close()
	res := x.loadRegions(cp, "LoadRegions", len(model), nil)
	wit := map[string]interface{}{"spec": sp, "saves": len(seq), "explicit_flush_every": flushEvery, "saves_since_last_flush": sinceFlush,
		"regions_on_medium_at_copy": len(visible), "delivered": res.Delivered}
	if res.PdPanic != "" || res.Loop != nil {
		wit["panic"], wit["loop"] = res.PdPanic, res.Loop
		r.Violation("leveldb-copy-load-fails", "loading the copied region storage panicked or looped", wit)
		return
	}
	if res.Err != nil {
		wit["error"] = res.Err.Error()
		r.Violation("leveldb-copy-load-fails", fmt.Sprintf("loading the copied region storage failed: %v", res.Err), wit)
		return
	}
	var dups, missing, wrong []uint64
	for id, c := range res.Count {
		if c > 1 {
			dups = append(dups, id)
		}
		m := model[id]
		known := false
		if m != nil {
			for _, v := range m.versions {
				if bytes.Equal(v, res.First[id].Bytes) {
					known = true
				}
			}
		}
		if !known {
			wrong = append(wrong, id)
		}
	}
	// whatever the medium showed at the instant of the copy (explicitly flushed or written by the
	// storage on its own) must come back from the copy
	var lostVisible []uint64
	for id := range visible {
		if res.Count[id] == 0 && id != math.MaxUint64 && model[id] != nil && model[id].flushed < 0 {
			lostVisible = append(lostVisible, id)
		}
	}
	for id, m := range model {
		if m.flushed < 0 {
			continue
		}
		c := res.Count[id]
		if c == 0 {
			missing = append(missing, id)
			continue
		}
		if !m.dirty && !bytes.Equal(res.First[id].Bytes, m.versions[m.flushed]) {
			wrong = append(wrong, id)
		}
		if m.dirty {
			// flushed version or any later one
			okv := false
			for _, v := range m.versions[m.flushed:] {
				if bytes.Equal(v, res.First[id].Bytes) {
					okv = true
				}
			}
			if !okv {
				wrong = append(wrong, id)
			}
		}
	}
	if len(dups) > 0 {
		wit["duplicated_ids"] = firstN(dups, 20)
		r.Violation("leveldb-copy-delivers-region-twice", fmt.Sprintf("loading the copied region storage delivered %d region(s) twice", len(dups)), wit)
	}
	// id 2^64-1 is the separately reported top-id defect
	var rest []uint64
	for _, id := range missing {
		if id == math.MaxUint64 {
			r.Violation(keyD4Regions, "the region with id 2^64-1 was flushed before the copy and is not returned by LoadRegions on the copy", wit)
		} else {
			rest = append(rest, id)
		}
	}
	if len(rest) > 0 {
		wit["missing_ids"] = firstN(rest, 20)
		wit["missing_total"] = len(rest)
		r.Violation("leveldb-copy-misses-flushed-region", fmt.Sprintf("%d region(s) whose Flush had returned before the copy are missing after reopening (e.g. id %d)", len(rest), firstN(rest, 1)[0]), wit)
	}
	if len(lostVisible) > 0 {
		wit["missing_ids"] = firstN(lostVisible, 20)
		r.Violation("leveldb-copy-misses-written-region", fmt.Sprintf("%d region(s) that were readable from the medium when the copy was taken are missing after reopening the copy (e.g. id %d)", len(lostVisible), firstN(lostVisible, 1)[0]), wit)
	}
	if len(wrong) > 0 {
		wit["wrong_ids"] = firstN(wrong, 20)
		r.Violation("leveldb-copy-returns-wrong-content", fmt.Sprintf("%d region(s) loaded from the copy have a content that was never saved or is older than the flushed one", len(wrong)), wit)
	}
	// the original continues: Close must make everything durable
	if err := b.closeReopenRS(); err != nil {
		r.Violation("region-storage-close-or-reopen-fails", fmt.Sprintf("Close / reopen of the region storage failed: %v", err), map[string]interface{}{"spec": sp})
		return
	}
	final := map[uint64]item{}
	for id, m := range model {
		final[id] = item{Bytes: m.versions[len(m.versions)-1]}
	}
	res2 := x.loadRegions(b, "LoadRegions", len(final), nil)
	x.judgeLoad(sp, "regions", res2, final, nil, false, map[string]interface{}{"phase": "original directory after Close and reopen"})
}

// runConcurrent: several goroutines save disjoint id sets into the region storage while another
// one flushes; afterwards everything must be loaded exactly once. Gives the race detector the
// batching code under concurrency.
func (x *runner) runConcurrent(sp Spec) {
	r := x.r
	rng := rand.New(rand.NewSource(sp.Seed))
	b, err := newBackend("regionstorage")
	if err != nil {
		r.Inconclusive("backend: %v", err)
		return
	}
	defer b.close()
	ids := genIDs(rng, sp.IDGen, sp.N)
	g := 2 + rng.Intn(4)
	type plan struct {
		regs []*metapb.Region
	}
	plans := make([]plan, g)
	must := map[uint64]item{}
	shared := map[uint64][][]byte{} // ids written by every writer: the survivor is the last version of one of them
	for i, id := range ids {
		if i%5 == 4 {
			for w := 0; w < g; w++ {
				reg := genRegion(rng, id, w, "small", 0, 1)
				plans[w].regs = append(plans[w].regs, reg)
				bs, _ := reg.Marshal()
				shared[id] = append(shared[id], bs)
			}
			continue
		}
		w := i % g
		nv := 1 + rng.Intn(2)
		for v := 0; v < nv; v++ {
			reg := genRegion(rng, id, v, "small", 0, 1)
			plans[w].regs = append(plans[w].regs, reg)
			bs, _ := reg.Marshal()
			must[id] = item{Bytes: bs} // the last version of an id is saved last by its (only) writer
		}
	}
	var wg sync.WaitGroup
	errs := make([]error, g+1)
	stop := make(chan struct{})
	for w := 0; w < g; w++ {
		wg.Add(1)
		go func(w int) {
			defer wg.Done()
			for _, reg := range plans[w].regs {
				if err := b.st.SaveRegion(reg); err != nil {
					errs[w] = err
					return
				}
			}
		}(w)
	}
	fdone := make(chan struct{})
	go func() {
		defer close(fdone)
		for {
			select {
			case <-stop:
				return
			default:
			}
			if err := b.st.Flush(); err != nil {
				errs[g] = err
				return
			}
			time.Sleep(200 * time.Microsecond)
		}
	}()
	wg.Wait()
	close(stop)
	<-fdone
	for _, e := range errs {
		if e != nil {
			r.Inconclusive("concurrent save/flush: %v", e)
			return
		}
	}
	r.Count("ops_save_region", int64(len(ids)+len(shared)*(g-1)))
	r.Count("concurrent_writer_goroutines", int64(g))
	if !x.finishRS(b, sp) {
		return
	}
	res := x.loadRegions(b, "LoadRegions", len(must)+len(shared), nil)
	may := map[uint64]bool{}
	for id := range shared {
		may[id] = true
	}
	x.judgeLoad(sp, "regions", res, must, may, false, map[string]interface{}{"writers": g})
	if res.Err == nil && res.Loop == nil && res.PdPanic == "" {
		for id, vs := range shared {
			if res.Count[id] != 1 || !inVersions(vs, res.First[id].Bytes) {
				r.Violation("concurrent-savers-of-one-region:survivor-is-no-writers-last-version", fmt.Sprintf("region %d was saved by %d goroutines at once (plus a flusher); after Flush/Close it is delivered %d time(s) with a content that is %s", id, g, res.Count[id], map[bool]string{true: "a writer's version", false: "none of the writers' versions"}[inVersions(vs, res.First[id].Bytes)]),
					map[string]interface{}{"spec": sp, "writers": g, "id": id})
				break
			}
		}
		r.Count("concurrent_regions_saved_by_every_writer", int64(len(shared)))
	}
}
