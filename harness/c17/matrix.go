package main

// Families that close the pair / fault / lifetime / scale matrix of C17:
//
//   interleave  other writers (SaveStore / DeleteStore / SaveStoreWeight, SaveRegion / DeleteRegion /
//               Flush) act between two steps of a running LoadStores / LoadRegions / LoadRegionsOnce
//               (deterministically, from inside the load callback: a write that lands while page p is
//               being processed is seen by the read of page p+1), optionally with a read fault on
//               page k or on the k-th point read; the load is then retried on the same Storage.
//   flushload   free-running writers + deleter on the region storage; Flush, then LoadRegions while
//               the writers go on: what was saved before Flush was called must be there.
//   cycles      one long-lived Storage (and region storage) through several save / prune-load cycles
//               with a fresh cache each time (successive leaders).
//   switch      SwitchToRegionStorage / SwitchToDefaultStorage between and during saves and loads,
//               one model per medium.

import (
	"bytes"
	"fmt"
	"math/rand"
	"sort"
	"sync"
	"time"

	"github.com/pingcap/kvproto/pkg/metapb"
	"github.com/tikv/pd/server/core"
	"verif/harness/lib/kvx"
)

// surround writes the unrelated keys a real pd keeps next to the scanned ranges (cluster meta at
// "raft", "raft/status/...", gc safe points, rules, scheduler configs, weights of stores that are
// gone) through the Storage API.
func surround(b *backend, rng *rand.Rand, withStores, withRegions bool) {
	st := b.st
	st.SaveMeta(&metapb.Cluster{Id: 7, MaxPeerCount: 3})
	st.Save(st.ClusterStatePath("raft_bootstrap_time"), "2021-06-01T00:00:00Z")
	st.Save(st.ClusterStatePath("is_initialized"), "true")
	st.SaveGCSafePoint(42)
	st.SaveServiceGCSafePoint(&core.ServiceSafePoint{ServiceID: "ticdc", ExpiredAt: 1 << 40, SafePoint: 40})
	st.SaveRule("pd-default", map[string]int{"count": 3})
	st.SaveRuleGroup("pd", map[string]int{"index": 1})
	st.SaveScheduleConfig("balance-region-scheduler", []byte("{}"))
	st.SaveConfig(map[string]string{"k": "v"})
	for i := 0; i < 3; i++ {
		st.SaveStoreWeight(uint64(1)<<51+uint64(i), 2, 3) // weights outlive their store
	}
	for i := 0; i < 3; i++ {
		// ids far away from everything the generators produce in one case
		id := uint64(1)<<50 + uint64(rng.Intn(1000))
		if withStores {
			st.Save(fmt.Sprintf("%s%020d", storePrefix, id), mustMarshalStore(&metapb.Store{Id: id, Address: "surround"}))
		}
		if withRegions && b.rs == nil {
			st.Save(fmt.Sprintf("%s%020d", regionPrefix, id), mustMarshalRegion(&metapb.Region{Id: id}))
		}
	}
}

func mustMarshalStore(s *metapb.Store) string   { b, _ := s.Marshal(); return string(b) }
func mustMarshalRegion(r *metapb.Region) string { b, _ := r.Marshal(); return string(b) }

func inVersions(vs [][]byte, b []byte) bool {
	for _, v := range vs {
		if bytes.Equal(v, b) {
			return true
		}
	}
	return false
}

// triggerPoints picks delivery indices (sorted, distinct) inside [0,n), biased to page boundaries.
func triggerPoints(rng *rand.Rand, n int, page int) []int {
	set := map[int]bool{}
	cands := []int{0, 1, page - 2, page - 1, page, page + 1, 2*page - 1, 2 * page, n - 2, n - 1}
	for k := 3 + rng.Intn(4); k > 0; k-- {
		var c int
		if rng.Intn(2) == 0 {
			c = cands[rng.Intn(len(cands))]
		} else {
			c = rng.Intn(n)
		}
		if c >= 0 && c < n {
			set[c] = true
		}
	}
	var out []int
	for c := range set {
		out = append(out, c)
	}
	sort.Ints(out)
	return out
}

// runInterleave: sp.What = stores | regions.
func (x *runner) runInterleave(sp Spec) {
	r := x.r
	rng := rand.New(rand.NewSource(sp.Seed))
	b, err := newBackend(sp.Backend)
	if err != nil {
		r.Inconclusive("backend %s: %v", sp.Backend, err)
		return
	}
	defer b.close()
	stores := sp.What == "stores"
	regionsOnRS := !stores && b.rs != nil
	nVol := 20 + rng.Intn(40)
	ids := genIDs(rng, sp.IDGen, sp.N+nVol)
	stable, vol := ids[:sp.N], ids[sp.N:]
	surround(b, rng, !stores, stores)

	exact := map[uint64]item{}        // exact current content of the medium (the part this case owns)
	versions := map[uint64][][]byte{} // everything ever saved per volatile id
	weights := map[uint64][2]float64{}
	isVol := map[uint64]bool{}
	for _, id := range vol {
		isVol[id] = true
	}
	fail := func(what string, err error) bool {
		if err != nil {
			r.Inconclusive("%s: %v (%s)", what, err, sp)
			return true
		}
		return false
	}
	ver := 0
	save := func(id uint64) bool {
		ver++
		var bs []byte
		if stores {
			s := genStore(rng, id, ver, false)
			if fail("SaveStore", b.st.SaveStore(s)) {
				return false
			}
			bs, _ = s.Marshal()
			r.Count("ops_save_store", 1)
		} else {
			reg := genRegion(rng, id, ver, "small", 0, 1)
			if fail("SaveRegion", b.st.SaveRegion(reg)) {
				return false
			}
			bs, _ = reg.Marshal()
			r.Count("ops_save_region", 1)
		}
		it := exact[id]
		it.Bytes = bs
		exact[id] = it
		if isVol[id] {
			versions[id] = append(versions[id], bs)
		}
		return true
	}
	setWeight := func(id uint64) bool {
		lw, rw := genWeight(rng), genWeight(rng)
		if fail("SaveStoreWeight", b.st.SaveStoreWeight(id, lw, rw)) {
			return false
		}
		weights[id] = [2]float64{lw, rw}
		r.Count("ops_save_weight", 1)
		return true
	}
	del := func(id uint64) bool {
		if stores {
			if fail("DeleteStore", b.st.DeleteStore(&metapb.Store{Id: id})) {
				return false
			}
			r.Count("ops_delete_store", 1)
		} else {
			if regionsOnRS { // a delete of a still-unflushed save is outside the statement: flush first
				if fail("Flush", b.st.Flush()) {
					return false
				}
			}
			if fail("DeleteRegion", b.st.DeleteRegion(&metapb.Region{Id: id})) {
				return false
			}
			r.Count("ops_delete_region", 1)
		}
		delete(exact, id)
		return true
	}
	directed := sp.Hist == "directed" // stores: every weight is set, no writers, the fault sits on point read number W
	for _, id := range stable {
		if !save(id) {
			return
		}
		if stores && (directed || rng.Intn(2) == 0) && !setWeight(id) {
			return
		}
	}
	var volSaved, volUnsaved []uint64
	for i, id := range vol {
		if i%2 == 0 {
			if !save(id) {
				return
			}
			volSaved = append(volSaved, id)
		} else {
			volUnsaved = append(volUnsaved, id)
		}
	}
	if regionsOnRS && fail("Flush", b.st.Flush()) {
		return
	}
	withWeights := func(m map[uint64]item) map[uint64]item {
		out := map[uint64]item{}
		for id, it := range m {
			if stores {
				it.LW, it.RW = 1, 1
				if w, ok := weights[id]; ok {
					it.LW, it.RW = w[0], w[1]
				}
			}
			out[id] = it
		}
		return out
	}
	must := map[uint64]item{}
	for _, id := range stable {
		must[id] = exact[id]
	}
	must = withWeights(must)
	may := map[uint64]bool{}
	for _, id := range vol {
		may[id] = true
	}
	// response limit (regions over an interceptable kv only): pages of roughly 156..312 items
	page := 100
	lim := 0
	if !stores && !regionsOnRS {
		page = feasiblePage
		if sp.W > 0 {
			maxSize := 0
			for _, s := range sizesOf(exact) {
				if s > maxSize {
					maxSize = s
				}
			}
			lim = feasiblePage * (maxSize + 40)
			b.kvx.LoadRangeLimitBytes = lim
		} else {
			page = 10000
		}
	}
	trig := triggerPoints(rng, sp.N+len(volSaved), page)
	if directed {
		trig = nil
	}
	opsDone := 0
	broken := false
	act := func() {
		for k := 1 + rng.Intn(4); k > 0 && !broken; k-- {
			switch c := rng.Intn(6); {
			case c <= 1 && len(volUnsaved) > 0: // a new item appears (below or above the cursor)
				i := rng.Intn(len(volUnsaved))
				id := volUnsaved[i]
				volUnsaved = append(volUnsaved[:i], volUnsaved[i+1:]...)
				broken = !save(id)
				volSaved = append(volSaved, id)
				if stores && !broken && rng.Intn(2) == 0 {
					broken = !setWeight(id)
				}
			case c == 2 && len(volSaved) > 0: // overwrite
				broken = !save(volSaved[rng.Intn(len(volSaved))])
			case c == 3 && len(volSaved) > 0: // delete
				i := rng.Intn(len(volSaved))
				id := volSaved[i]
				volSaved = append(volSaved[:i], volSaved[i+1:]...)
				broken = !del(id)
			case c == 4 && stores && len(volSaved) > 0:
				broken = !setWeight(volSaved[rng.Intn(len(volSaved))])
			case c == 4 && regionsOnRS:
				broken = fail("Flush", b.st.Flush())
				r.Count("ops_flush", 1)
			default:
				continue
			}
			opsDone++
		}
	}
	// fault placement
	if sp.Fault != "" && !regionsOnRS {
		switch sp.Fault {
		case "transient-range":
			b.pw.next = &faultPlan{FailRangeAt: 1 + rng.Intn(4)}
		case "persistent-range":
			b.pw.next = &faultPlan{FailAfterOK: 1 + rng.Intn(2)}
		case "transient-load":
			b.pw.next = &faultPlan{FailLoadAt: 1 + rng.Intn(2*sp.N+1)}
			if directed {
				b.pw.next.FailLoadAt = sp.W
			}
		}
	}
	delivered := 0
	next := 0
	hook := func() {
		if next < len(trig) && delivered == trig[next] {
			next++
			act()
		}
		delivered++
	}
	var res *loadResult
	api := "LoadStores"
	if stores {
		res = x.loadStoresWith(b, len(exact)+nVol, hook)
	} else {
		api = []string{"LoadRegions", "LoadRegionsOnce"}[rng.Intn(2)]
		res = x.loadRegions(b, api, len(exact)+nVol, func(*core.RegionInfo) []*core.RegionInfo { hook(); return nil })
	}
	if broken {
		return
	}
	injected := b.pw.injectedFaults()
	r.Count("interleave_writes_inside_a_running_load", int64(opsDone))
	r.Count("read_faults_injected_inside_a_load", int64(injected))
	kind := "regions"
	if stores {
		kind = "stores"
	}
	extra := map[string]interface{}{"phase": "load with concurrent writers", "writes_inside_the_load": opsDone, "at_deliveries": trig,
		"read_faults_injected": injected, "response_limit_bytes": lim, "stable_items": len(must), "volatile_ids": len(vol)}
	x.judgeLoad(sp, kind, res, must, may, injected > 0, extra)
	if res.Err != nil && injected > 0 {
		r.Count("loads_failed_by_injected_read_fault", 1)
	}
	// volatile items: whatever was delivered must be something that was saved
	for id := range res.Count {
		if isVol[id] && !inVersions(versions[id], res.First[id].Bytes) {
			extra["spec"], extra["id"] = sp, id
			r.Violation("load-returns-never-saved-content-under-concurrent-writes:"+api, fmt.Sprintf("%s delivered a content for id %d that no writer ever saved", api, id), extra)
			break
		}
	}
	// retry on the same long-lived Storage, now quiescent and without faults: the exact model
	if regionsOnRS && fail("Flush", b.st.Flush()) {
		return
	}
	full := withWeights(exact)
	extra2 := map[string]interface{}{"phase": "retried load on the same Storage after the writers stopped", "first_load_error": fmt.Sprint(res.Err), "response_limit_bytes": lim}
	var res2 *loadResult
	if stores {
		res2 = x.loadStoresWith(b, len(full), nil)
	} else {
		api2 := "LoadRegions"
		if !regionsOnRS && rng.Intn(2) == 0 {
			api2 = "LoadRegionsOnce"
		}
		res2 = x.loadRegions(b, api2, len(full), nil)
	}
	x.judgeLoad(sp, kind, res2, full, nil, false, extra2)
}

// loadStoresWith is loadStores with a hook called at every delivery.
func (x *runner) loadStoresWith(b *backend, expect int, hook func()) *loadResult {
	res := &loadResult{API: "LoadStores", Count: map[uint64]int{}, First: map[uint64]item{}}
	b.pw.begin(200 + 4*expect)
	x.protect(res, func() error {
		return b.st.LoadStores(func(s *core.StoreInfo) {
			id := s.GetID()
			res.Count[id]++
			res.Delivered++
			if res.Count[id] == 1 {
				bs, _ := s.GetMeta().Marshal()
				res.First[id] = item{Bytes: bs, LW: s.GetLeaderWeight(), RW: s.GetRegionWeight()}
			}
			if res.Delivered > 3*expect+200 {
				panic(deliveryAbort{})
			}
			if hook != nil {
				hook()
			}
		})
	})
	res.Pages, res.NPages, res.MinLimit, res.LimitErrs, res.Removed = b.pw.snapshot()
	x.r.Count("loads_LoadStores", 1)
	x.r.Count("pages_observed", int64(res.NPages))
	x.r.Count("items_delivered", int64(res.Delivered))
	return res
}

// runFaultPrune: the pruning load fails in the middle (read fault that persists down to the
// smallest page) and is retried with the same cache on the same Storage.
func (x *runner) runFaultPrune(sp Spec) {
	r := x.r
	rng := rand.New(rand.NewSource(sp.Seed))
	b, err := newBackend(sp.Backend)
	if err != nil {
		r.Inconclusive("backend %s: %v", sp.Backend, err)
		return
	}
	defer b.close()
	surround(b, rng, true, false)
	ids := genIDs(rng, sp.IDGen, sp.N)
	world := genWorld(rng, ids, "small")
	rng.Shuffle(len(world), func(i, j int) { world[i], world[j] = world[j], world[i] })
	must := map[uint64]item{}
	for _, reg := range world {
		if err := b.st.SaveRegion(reg); err != nil {
			r.Inconclusive("SaveRegion: %v", err)
			return
		}
		bs, _ := reg.Marshal()
		must[reg.Id] = item{Bytes: bs}
		r.Count("ops_save_region", 1)
	}
	lim, _ := setLimit(b, sp, must, feasiblePage)
	cache := core.NewBasicCluster()
	reported := map[uint64]bool{}
	cb := func(ri *core.RegionInfo) []*core.RegionInfo {
		ov := cache.CheckAndPutRegion(ri)
		for _, o := range ov {
			reported[o.GetID()] = true
		}
		return ov
	}
	b.pw.next = &faultPlan{FailAfterOK: 1 + rng.Intn(2)}
	res := x.loadRegions(b, "LoadRegions", len(must), cb)
	inj := b.pw.injectedFaults()
	r.Count("read_faults_injected_inside_a_load", int64(inj))
	extra := map[string]interface{}{"phase": "pruning load with a persistent read fault after the first page(s)", "response_limit_bytes": lim, "read_faults_injected": inj}
	x.judgeLoad(sp, "regions", res, must, nil, inj > 0, extra)
	if res.Err != nil {
		r.Count("loads_failed_by_injected_read_fault", 1)
		r.Count("prune_loads_failed_midway_then_retried", 1)
	}
	if res.Loop != nil || res.PdPanic != "" || res.Budget != nil || res.Aborted {
		return
	}
	// what is in storage now is what the retry has to deliver
	now, err := b.rawRegions()
	if err != nil {
		r.Inconclusive("raw scan: %v", err)
		return
	}
	must2 := map[uint64]item{}
	for id := range now {
		if it, ok := must[id]; ok {
			must2[id] = it
		}
	}
	// the remaining set has other windows of 156 consecutive items than the original one
	lim, _ = setLimit(b, sp, must2, feasiblePage)
	extra["response_limit_bytes_retry"] = lim
	api := []string{"LoadRegions", "LoadRegionsOnce"}[rng.Intn(2)]
	res2 := x.loadRegions(b, api, len(must2), cb)
	extra["phase"] = "retry with the same cache on the same Storage"
	und := x.judgeLoad(sp, "regions", res2, must2, nil, false, extra)
	if res2.Err != nil || res2.Loop != nil || res2.PdPanic != "" || res2.Budget != nil || res2.Aborted {
		return
	}
	x.checkPruned(sp, b, api, res2, must, cache, reported, und, lim)
}

// runCycles: one Storage object lives through several leaders: save / overwrite / delete, load
// (prune) into a fresh cache, go on.
func (x *runner) runCycles(sp Spec) {
	r := x.r
	rng := rand.New(rand.NewSource(sp.Seed))
	b, err := newBackend(sp.Backend)
	if err != nil {
		r.Inconclusive("backend %s: %v", sp.Backend, err)
		return
	}
	defer b.close()
	cycles := 3 + rng.Intn(2)
	if sp.What == "stores" {
		x.cyclesStores(sp, rng, b, cycles)
		return
	}
	surround(b, rng, true, false)
	per := sp.N/cycles + 1
	ids := genIDs(rng, sp.IDGen, per*cycles)
	exact := map[uint64]item{}
	inconc := func(what string, err error) bool {
		if err != nil {
			r.Inconclusive("%s: %v (%s)", what, err, sp)
			return true
		}
		return false
	}
	var cache *core.BasicCluster
	for c := 0; c < cycles; c++ {
		batch := genWorld(rng, ids[c*per:(c+1)*per], "small")
		rng.Shuffle(len(batch), func(i, j int) { batch[i], batch[j] = batch[j], batch[i] })
		for _, reg := range batch {
			ri := core.NewRegionInfo(reg, nil)
			if cache != nil && rng.Intn(4) != 0 {
				// a heartbeat handled by the current leader: cache first, then storage (overlaps removed, region saved)
				ov := cache.CheckAndPutRegion(ri)
				if len(ov) == 1 && ov[0].GetID() == reg.Id {
					continue // stale for the cache: not persisted
				}
				for _, o := range ov {
					if b.rs != nil && inconc("Flush", b.st.Flush()) {
						return
					}
					if inconc("DeleteRegion", b.st.DeleteRegion(o.GetMeta())) {
						return
					}
					delete(exact, o.GetID())
					r.Count("ops_delete_region", 1)
				}
			}
			// (else: a write that reaches storage only, e.g. from a leader that is being replaced)
			if inconc("SaveRegion", b.st.SaveRegion(reg)) {
				return
			}
			bs, _ := reg.Marshal()
			exact[reg.Id] = item{Bytes: bs}
			r.Count("ops_save_region", 1)
		}
		if b.rs != nil && inconc("Flush", b.st.Flush()) {
			return
		}
		lim, errOK := setLimit(b, sp, exact, feasiblePage)
		cache = core.NewBasicCluster() // the next leader starts with an empty cache
		reported := map[uint64]bool{}
		api := "LoadRegions"
		if b.rs == nil && rng.Intn(2) == 0 || b.rs != nil && c == 0 {
			api = "LoadRegionsOnce" // with the region storage only the first call loads (documented)
		}
		cc := cache
		res := x.loadRegions(b, api, len(exact), func(ri *core.RegionInfo) []*core.RegionInfo {
			ov := cc.CheckAndPutRegion(ri)
			for _, o := range ov {
				reported[o.GetID()] = true
			}
			return ov
		})
		extra := map[string]interface{}{"cycle": c, "of": cycles, "response_limit_bytes": lim, "long_lived_storage": true}
		und := x.judgeLoad(sp, "regions", res, exact, nil, errOK, extra)
		if res.Err != nil || res.Loop != nil || res.PdPanic != "" || res.Budget != nil || res.Aborted {
			return
		}
		x.checkPruned(sp, b, api, res, exact, cache, reported, und, lim)
		// the model continues with what survived
		next := map[uint64]item{}
		for _, m := range cache.GetMetaRegions() {
			if it, ok := exact[m.GetId()]; ok {
				next[m.GetId()] = it
			}
		}
		exact = next
		r.Count("load_prune_cycles_on_a_long_lived_storage", 1)
	}
}

func (x *runner) cyclesStores(sp Spec, rng *rand.Rand, b *backend, cycles int) {
	r := x.r
	surround(b, rng, false, true)
	per := sp.N/cycles + 1
	ids := genIDs(rng, sp.IDGen, per*cycles)
	exact := map[uint64]item{}
	weights := map[uint64][2]float64{}
	var gone []uint64
	ver := 0
	inconc := func(what string, err error) bool {
		if err != nil {
			r.Inconclusive("%s: %v (%s)", what, err, sp)
			return true
		}
		return false
	}
	save := func(id uint64, forceW bool) bool {
		ver++
		s := genStore(rng, id, ver, false)
		if inconc("SaveStore", b.st.SaveStore(s)) {
			return false
		}
		bs, _ := s.Marshal()
		exact[id] = item{Bytes: bs}
		r.Count("ops_save_store", 1)
		if forceW || rng.Intn(2) == 0 {
			lw, rw := genWeight(rng), genWeight(rng)
			if inconc("SaveStoreWeight", b.st.SaveStoreWeight(id, lw, rw)) {
				return false
			}
			weights[id] = [2]float64{lw, rw}
			r.Count("ops_save_weight", 1)
		}
		return true
	}
	for c := 0; c < cycles; c++ {
		for _, id := range ids[c*per : (c+1)*per] {
			if !save(id, false) {
				return
			}
		}
		live := idsOf(exact)
		rng.Shuffle(len(live), func(i, j int) { live[i], live[j] = live[j], live[i] })
		for i, id := range live {
			switch {
			case i%7 == 0 && c > 0:
				if inconc("DeleteStore", b.st.DeleteStore(&metapb.Store{Id: id})) {
					return
				}
				delete(exact, id)
				gone = append(gone, id)
				r.Count("ops_delete_store", 1)
			case i%5 == 0:
				if !save(id, false) {
					return
				}
			}
		}
		if len(gone) > 0 && rng.Intn(2) == 0 { // a removed store comes back (weights are set again)
			id := gone[len(gone)-1]
			gone = gone[:len(gone)-1]
			if !save(id, true) {
				return
			}
		}
		must := map[uint64]item{}
		for id, it := range exact {
			it.LW, it.RW = 1, 1
			if w, ok := weights[id]; ok {
				it.LW, it.RW = w[0], w[1]
			}
			must[id] = it
		}
		res := x.loadStores(b, len(must))
		x.judgeLoad(sp, "stores", res, must, nil, false, map[string]interface{}{"cycle": c, "of": cycles, "long_lived_storage": true})
		r.Count("load_cycles_on_a_long_lived_storage", 1)
	}
}

// runSwitch: SwitchToRegionStorage / SwitchToDefaultStorage between saves, deletes, flushes and
// loads (one exact model per medium), then a toggler running against writers and a loader.
func (x *runner) runSwitch(sp Spec) {
	r := x.r
	rng := rand.New(rand.NewSource(sp.Seed))
	b, err := newBackend("regionstorage")
	if err != nil {
		r.Inconclusive("backend: %v", err)
		return
	}
	defer b.close()
	surround(b, rng, true, false)
	ids := genIDs(rng, sp.IDGen, sp.N+200)
	pool, racePool := ids[:sp.N], ids[sp.N:]
	models := map[bool]map[uint64]item{true: {}, false: {}} // key: useRegionStorage
	onRS := true
	onceDoneRS := false
	inconc := func(what string, err error) bool {
		if err != nil {
			r.Inconclusive("%s: %v (%s)", what, err, sp)
			return true
		}
		return false
	}
	ver := 0
	load := func(api string) bool {
		// Flush acts on the region storage whatever the mode is: sometimes it is called while the
		// default storage is selected and the mode is switched back before loading
		detour := onRS && rng.Intn(3) == 0
		if detour {
			b.st.SwitchToDefaultStorage()
		}
		if inconc("Flush", b.st.Flush()) {
			return false
		}
		if detour {
			b.st.SwitchToRegionStorage()
			r.Count("switch_flushes_called_in_default_mode", 1)
		}
		r.Count("ops_flush", 1)
		if api == "LoadRegionsOnce" && onRS {
			if onceDoneRS {
				return true // documented: only the first call loads from the region storage
			}
			onceDoneRS = true
		}
		res := x.loadRegions(b, api, len(models[onRS]), nil)
		x.judgeLoad(sp, "regions", res, models[onRS], nil, false, map[string]interface{}{"mode_region_storage": onRS, "family": "switch"})
		r.Count("switch_loads_judged", 1)
		return true
	}
	next := 0
	steps := 40 + rng.Intn(40)
	for s := 0; s < steps; s++ {
		switch c := rng.Intn(10); {
		case c <= 3 && next < len(pool): // a burst of saves in the current mode
			for k := 1 + rng.Intn(40); k > 0 && next < len(pool); k-- {
				id := pool[next]
				if rng.Intn(5) == 0 && next > 0 {
					id = pool[rng.Intn(next)] // overwrite, possibly into the other medium
				} else {
					next++
				}
				ver++
				reg := genRegion(rng, id, ver, "small", 0, 1)
				if inconc("SaveRegion", b.st.SaveRegion(reg)) {
					return
				}
				bs, _ := reg.Marshal()
				models[onRS][id] = item{Bytes: bs}
				r.Count("ops_save_region", 1)
			}
		case c == 4 && len(models[onRS]) > 0:
			live := idsOf(models[onRS])
			id := live[rng.Intn(len(live))]
			if onRS && inconc("Flush", b.st.Flush()) {
				return
			}
			if inconc("DeleteRegion", b.st.DeleteRegion(&metapb.Region{Id: id})) {
				return
			}
			delete(models[onRS], id)
			r.Count("ops_delete_region", 1)
		case c == 5 || c == 6:
			onRS = !onRS
			if onRS {
				b.st.SwitchToRegionStorage()
			} else {
				b.st.SwitchToDefaultStorage()
			}
			r.Count("ops_switch_storage", 1)
		case c == 7:
			if !load("LoadRegionsOnce") {
				return
			}
		default:
			if !load("LoadRegions") {
				return
			}
		}
	}
	for k := 0; k < 2; k++ {
		if !load("LoadRegions") {
			return
		}
		onRS = !onRS
		if onRS {
			b.st.SwitchToRegionStorage()
		} else {
			b.st.SwitchToDefaultStorage()
		}
	}
	// ---- toggler against two writers and a loader (free-running)
	var wg sync.WaitGroup
	stop := make(chan struct{})
	savedOK := make([]map[uint64][]byte, 2)
	var werr [2]error
	for w := 0; w < 2; w++ {
		savedOK[w] = map[uint64][]byte{}
		wg.Add(1)
		go func(w int, lr *rand.Rand) {
			defer wg.Done()
			for i := w; i < len(racePool); i += 2 {
				reg := genRegion(lr, racePool[i], 1000+i, "small", 0, 1)
				if err := b.st.SaveRegion(reg); err != nil {
					werr[w] = err
					return
				}
				bs, _ := reg.Marshal()
				savedOK[w][racePool[i]] = bs
			}
		}(w, rand.New(rand.NewSource(rng.Int63())))
	}
	tdone := make(chan struct{})
	toggles := 0
	go func() {
		defer close(tdone)
		for {
			select {
			case <-stop:
				return
			default:
			}
			b.st.SwitchToDefaultStorage()
			b.st.SwitchToRegionStorage()
			toggles += 2
		}
	}()
	var dupID uint64
	var lerr error
	ldone := make(chan struct{})
	go func() {
		defer close(ldone)
		for k := 0; k < 6; k++ {
			b.pw.begin(0) // one observation window per load
			seen := map[uint64]int{}
			err := b.st.LoadRegions(func(ri *core.RegionInfo) []*core.RegionInfo {
				seen[ri.GetID()]++
				if seen[ri.GetID()] == 2 {
					dupID = ri.GetID()
				}
				return nil
			})
			if err != nil {
				lerr = err
			}
		}
	}()
	wg.Wait()
	<-ldone
	close(stop)
	<-tdone
	r.Count("ops_switch_storage", int64(toggles))
	if werr[0] != nil || werr[1] != nil {
		r.Inconclusive("SaveRegion during mode toggling: %v %v", werr[0], werr[1])
		return
	}
	wit := map[string]interface{}{"spec": sp, "family": "switch: toggler against writers and a loader", "toggles": toggles}
	if lerr != nil {
		wit["error"] = lerr.Error()
		r.Violation("load-fails:LoadRegions:while-switching-storage", fmt.Sprintf("LoadRegions failed while the storage mode was switched: %.200s", lerr.Error()), wit)
	}
	if dupID != 0 {
		wit["id"] = dupID
		r.Violation("load-delivers-item-twice:LoadRegions:while-switching-storage", fmt.Sprintf("one LoadRegions call delivered region %d twice while the storage mode was switched", dupID), wit)
	}
	if inconc("Flush", b.st.Flush()) {
		return
	}
	// every acknowledged save went to one of the two media
	onDisk, err1 := b.rawRegions()
	baseRaw, err2 := b.rawScan(regionPrefix, false)
	if err1 != nil || err2 != nil {
		r.Inconclusive("raw scan: %v %v", err1, err2)
		return
	}
	lost := 0
	var lostID uint64
	for w := 0; w < 2; w++ {
		for id, bs := range savedOK[w] {
			inRS := false
			if g, ok := onDisk[id]; ok {
				gb, _ := g.Marshal()
				inRS = bytes.Equal(gb, bs)
			}
			inBase := baseRaw[fmt.Sprintf("%s%020d", regionPrefix, id)] == string(bs)
			if inRS {
				models[true][id] = item{Bytes: bs}
			}
			if inBase {
				models[false][id] = item{Bytes: bs}
			}
			if !inRS && !inBase {
				lost++
				lostID = id
			}
		}
	}
	r.Count("switch_saves_raced_with_toggling", int64(len(savedOK[0])+len(savedOK[1])))
	if lost > 0 {
		wit["example_id"] = lostID
		r.Violation("save-lost-while-switching-storage", fmt.Sprintf("%d region(s) whose SaveRegion returned nil while the storage mode was switched are in neither medium after Flush (e.g. id %d)", lost, lostID), wit)
	}
	for k := 0; k < 2; k++ {
		onRS = k == 0
		if onRS {
			b.st.SwitchToRegionStorage()
		} else {
			b.st.SwitchToDefaultStorage()
		}
		if !load("LoadRegions") {
			return
		}
	}
}

// runFlushLoad: writers and a deleter run freely on the region storage; the main goroutine
// snapshots what has been acknowledged, calls Flush and, once it returned, loads while the others
// go on. Everything acknowledged before Flush was called has to be delivered exactly once.
func (x *runner) runFlushLoad(sp Spec) {
	r := x.r
	rng := rand.New(rand.NewSource(sp.Seed))
	b, err := newBackend("regionstorage")
	if err != nil {
		r.Inconclusive("backend: %v", err)
		return
	}
	defer b.close()
	nw := 2 + rng.Intn(2)
	perW := 150 + rng.Intn(250)
	ids := genIDs(rng, sp.IDGen, sp.N+nw*perW)
	base, wids := ids[:sp.N], ids[sp.N:]
	stable := map[uint64]item{}
	for _, id := range base {
		reg := genRegion(rng, id, 0, "small", 0, 1)
		if err := b.st.SaveRegion(reg); err != nil {
			r.Inconclusive("SaveRegion: %v", err)
			return
		}
		bs, _ := reg.Marshal()
		stable[id] = item{Bytes: bs}
	}
	if err := b.st.Flush(); err != nil {
		r.Inconclusive("Flush: %v", err)
		return
	}
	delPool := append([]uint64(nil), base[:len(base)/3]...)
	inDelPool := map[uint64]bool{}
	for _, id := range delPool {
		inDelPool[id] = true
	}
	var mu sync.Mutex
	versions := map[uint64][][]byte{} // appended before SaveRegion is called
	acked := map[uint64]int{}         // number of versions whose SaveRegion returned
	delStarted := map[uint64]bool{}
	delDone := map[uint64]bool{}
	progress := 0
	var wg sync.WaitGroup
	errs := make([]error, nw+1)
	for w := 0; w < nw; w++ {
		wg.Add(1)
		go func(w int, lr *rand.Rand) {
			defer wg.Done()
			mine := wids[w*perW : (w+1)*perW]
			for i, id := range mine {
				target := id
				if i > 0 && lr.Intn(6) == 0 {
					target = mine[lr.Intn(i)] // overwrite one of its own
				}
				reg := genRegion(lr, target, i, "small", 0, 1)
				bs, _ := reg.Marshal()
				mu.Lock()
				versions[target] = append(versions[target], bs)
				n := len(versions[target])
				mu.Unlock()
				if err := b.st.SaveRegion(reg); err != nil {
					errs[w] = err
					return
				}
				mu.Lock()
				acked[target] = n
				progress++
				mu.Unlock()
				if i%16 == 0 {
					time.Sleep(50 * time.Microsecond) // lets the main goroutine get in between
				}
			}
		}(w, rand.New(rand.NewSource(rng.Int63())))
	}
	wg.Add(1)
	go func() {
		defer wg.Done()
		for _, id := range delPool {
			mu.Lock()
			delStarted[id] = true
			mu.Unlock()
			if err := b.st.DeleteRegion(&metapb.Region{Id: id}); err != nil {
				errs[nw] = err
				return
			}
			mu.Lock()
			delDone[id] = true
			progress++
			mu.Unlock()
			time.Sleep(100 * time.Microsecond)
		}
	}()
	writersDone := make(chan struct{})
	go func() { wg.Wait(); close(writersDone) }()
	total := nw*perW + len(delPool)
	rounds := 3
	for round := 1; round <= rounds; round++ {
		// wait for progress (not for time): a share of the planned operations, or the end of the writers
		want := total * round / (rounds + 1)
	wait:
		for {
			mu.Lock()
			p := progress
			mu.Unlock()
			if p >= want {
				break
			}
			select {
			case <-writersDone:
				break wait
			default:
				time.Sleep(200 * time.Microsecond)
			}
		}
		// snapshot of what has been acknowledged, then Flush, then load while the others go on
		mu.Lock()
		ackSnap := map[uint64]int{}
		for id, n := range acked {
			ackSnap[id] = n
		}
		delDoneSnap := map[uint64]bool{}
		for id := range delDone {
			delDoneSnap[id] = true
		}
		delStartedSnapBefore := map[uint64]bool{}
		for id := range delStarted {
			delStartedSnapBefore[id] = true
		}
		mu.Unlock()
		if err := b.st.Flush(); err != nil {
			r.Inconclusive("Flush: %v", err)
			<-writersDone
			return
		}
		r.Count("ops_flush", 1)
		res := x.loadRegions(b, "LoadRegions", len(stable)+len(wids), nil)
		mu.Lock()
		delStartedAfter := map[uint64]bool{}
		for id := range delStarted {
			delStartedAfter[id] = true
		}
		verSnap := map[uint64][][]byte{}
		for id, vs := range versions {
			verSnap[id] = append([][]byte(nil), vs...)
		}
		mu.Unlock()
		select {
		case <-writersDone:
		default:
			r.Count("flushload_loads_that_overlapped_running_writers", 1)
		}
		wit := map[string]interface{}{"spec": sp, "round": round, "writers": nw, "acknowledged_before_flush": len(ackSnap), "delivered": res.Delivered,
			"family": "Flush returned, LoadRegions while writers and a deleter go on"}
		if res.Err != nil || res.PdPanic != "" || res.Loop != nil {
			wit["error"], wit["panic"] = fmt.Sprint(res.Err), res.PdPanic
			r.Violation("load-fails:LoadRegions:under-concurrent-writes", "LoadRegions failed / panicked while writers were running", wit)
			continue
		}
		var missing, twice, wrong, ghost []uint64
		for id, c := range res.Count {
			if c > 1 {
				twice = append(twice, id)
			}
		}
		for id, it := range stable {
			if delStartedAfter[id] {
				if delDoneSnap[id] && res.Count[id] > 0 {
					ghost = append(ghost, id) // its delete had returned before Flush was even called
				}
				continue
			}
			if res.Count[id] == 0 {
				missing = append(missing, id)
			} else if !bytes.Equal(res.First[id].Bytes, it.Bytes) {
				wrong = append(wrong, id)
			}
		}
		for id, n := range ackSnap {
			if res.Count[id] == 0 {
				missing = append(missing, id)
				continue
			}
			if !inVersions(verSnap[id][n-1:], res.First[id].Bytes) {
				wrong = append(wrong, id) // older than what was acknowledged before the flush, or never saved
			}
		}
		for id := range res.Count {
			if _, ok := stable[id]; ok {
				continue
			}
			if !inVersions(verSnap[id], res.First[id].Bytes) {
				wrong = append(wrong, id)
			}
		}
		if len(missing) > 0 {
			wit["missing_ids"], wit["missing_total"] = firstN(missing, 10), len(missing)
			r.Violation("flush-returned-but-acknowledged-region-not-loaded", fmt.Sprintf("%d region(s) whose SaveRegion had returned before Flush was called are not delivered by a LoadRegions issued after Flush returned (e.g. id %d)", len(missing), firstN(missing, 1)[0]), wit)
		}
		if len(twice) > 0 {
			wit["twice_ids"] = firstN(twice, 10)
			r.Violation("load-delivers-item-twice:LoadRegions:under-concurrent-writes", fmt.Sprintf("LoadRegions delivered %d region(s) twice while writers were running", len(twice)), wit)
		}
		if len(wrong) > 0 {
			wit["wrong_ids"] = firstN(wrong, 10)
			r.Violation("load-returns-stale-or-unknown-content-after-flush", fmt.Sprintf("%d region(s) were delivered with a content older than the one acknowledged before Flush, or never saved (e.g. id %d)", len(wrong), firstN(wrong, 1)[0]), wit)
		}
		if len(ghost) > 0 {
			wit["ghost_ids"] = firstN(ghost, 10)
			r.Violation("load-returns-deleted-or-unknown-item:LoadRegions:under-concurrent-writes", fmt.Sprintf("%d region(s) whose DeleteRegion had returned before the load are delivered", len(ghost)), wit)
		}
		r.Count("flushload_rounds_judged", 1)
	}
	<-writersDone
	for _, e := range errs {
		if e != nil {
			r.Inconclusive("writer/deleter: %v", e)
			return
		}
	}
	r.Count("ops_save_region", int64(nw*perW))
	r.Count("ops_delete_region", int64(len(delPool)))
	if !x.finishRS(b, sp) {
		return
	}
	final := map[uint64]item{}
	for id, it := range stable {
		if !inDelPool[id] {
			final[id] = it
		}
	}
	for id, vs := range versions {
		final[id] = item{Bytes: vs[len(vs)-1]}
	}
	res := x.loadRegions(b, "LoadRegions", len(final), nil)
	x.judgeLoad(sp, "regions", res, final, nil, false, map[string]interface{}{"phase": "after the writers stopped", "family": "flushload"})
}

// runLifecycle: the region storage is created with a cancellable parent context (the server
// context); pd-server cancels it BEFORE it closes the server. sp.Hist says where the parent is
// cancelled, sp.W is the number of regions still pending in the batch at that moment:
//
//	cancel-before-close   save, cancel, Close            -> reopen, full load
//	cancel-before-flush   save, cancel, Flush, full load -> Close, reopen, full load
//	cancel-between-saves  save, cancel, save more, Close -> reopen, full load
//	cancel-after-close    save, Close, cancel (control)  -> reopen, full load
//
// Once Flush / Close has returned nil every saved region has to be loaded exactly once.
func (x *runner) runLifecycle(sp Spec) {
	r := x.r
	rng := rand.New(rand.NewSource(sp.Seed))
	b, err := newBackend("regionstorage")
	if err != nil {
		r.Inconclusive("backend: %v", err)
		return
	}
	defer b.close()
	pending := sp.W
	ids := genIDs(rng, sp.IDGen, sp.N+2*pending)
	baseIDs, pendIDs, lateIDs := ids[:sp.N], ids[sp.N:sp.N+pending], ids[sp.N+pending:]
	must := map[uint64]item{}
	ver := 0
	save := func(id uint64) bool {
		ver++
		reg := genRegion(rng, id, ver, "small", 0, 1)
		if err := b.st.SaveRegion(reg); err != nil {
			r.Inconclusive("SaveRegion: %v (%s)", err, sp)
			return false
		}
		bs, _ := reg.Marshal()
		must[id] = item{Bytes: bs}
		r.Count("ops_save_region", 1)
		return true
	}
	for _, id := range baseIDs {
		if !save(id) {
			return
		}
	}
	if err := b.st.Flush(); err != nil {
		r.Inconclusive("Flush: %v", err)
		return
	}
	// the batch that is pending when the context is cancelled: new regions and newer versions of flushed ones
	for i, id := range pendIDs {
		if i%4 == 3 && len(baseIDs) > 0 {
			id = baseIDs[rng.Intn(len(baseIDs))]
		}
		if !save(id) {
			return
		}
	}
	extra := map[string]interface{}{"family": "lifecycle", "parent_context_cancelled": sp.Hist, "pending_regions_at_cancel": pending}
	closeReopen := func() bool {
		if err := b.closeReopenRS(); err != nil {
			r.Violation("region-storage-close-or-reopen-fails", fmt.Sprintf("Close / reopen of the region storage failed: %v", err), map[string]interface{}{"spec": sp})
			return false
		}
		r.Count("ops_close_reopen", 1)
		return true
	}
	extraMay := map[uint64]bool{}
	fullLoad := func(phase string) {
		extra["phase"] = phase
		res := x.loadRegions(b, "LoadRegions", len(must), nil)
		x.judgeLoad(sp, "regions", res, must, extraMay, false, extra)
	}
	switch sp.Hist {
	case "cancel-before-close":
		b.cancel()
		r.Count("lifecycle_parent_cancelled_with_pending_batch", 1)
		if !closeReopen() {
			return
		}
		fullLoad("after cancel, Close (returned nil), reopen")
	case "cancel-before-flush":
		b.cancel()
		r.Count("lifecycle_parent_cancelled_with_pending_batch", 1)
		if err := b.st.Flush(); err != nil {
			// an error would be honest: nothing is promised then
			r.Count("lifecycle_flush_after_cancel_returned_error_not_judged", 1)
			return
		}
		fullLoad("after cancel, Flush (returned nil), on the live storage")
		if !closeReopen() {
			return
		}
		fullLoad("after cancel, Flush, Close, reopen")
	case "cancel-between-saves":
		b.cancel()
		r.Count("lifecycle_parent_cancelled_with_pending_batch", 1)
		for _, id := range lateIDs[:1+rng.Intn(len(lateIDs))] {
			if !save(id) { // heartbeats still arrive while the server is stopping
				return
			}
		}
		if !closeReopen() {
			return
		}
		fullLoad("after cancel, more saves, Close (returned nil), reopen")
	case "cancel-after-close":
		if err := b.st.Close(); err != nil {
			r.Violation("region-storage-close-or-reopen-fails", fmt.Sprintf("Close failed: %v", err), map[string]interface{}{"spec": sp})
			return
		}
		b.cancel()
		b.rs = nil
		if err := b.openRS(b.rsDir); err != nil {
			r.Violation("region-storage-close-or-reopen-fails", fmt.Sprintf("reopen failed: %v", err), map[string]interface{}{"spec": sp})
			return
		}
		fullLoad("control: Close, then cancel, reopen")
	case "double-close":
		if err := b.st.Close(); err != nil {
			r.Violation("region-storage-close-or-reopen-fails", fmt.Sprintf("Close failed: %v", err), map[string]interface{}{"spec": sp})
			return
		}
		var pan interface{}
		func() {
			defer func() { pan = recover() }()
			if err := b.st.Close(); err != nil { // an error is fine, a panic or damage is not
				r.Count("lifecycle_second_close_returned_error", 1)
			}
		}()
		if pan != nil {
			r.Violation("region-storage-double-close-panics", fmt.Sprintf("the second Close panicked: %v", pan), map[string]interface{}{"spec": sp})
			return
		}
		b.cancel()
		b.rs = nil
		if err := b.openRS(b.rsDir); err != nil {
			r.Violation("region-storage-close-or-reopen-fails", fmt.Sprintf("reopen after a double Close failed: %v", err), map[string]interface{}{"spec": sp})
			return
		}
		fullLoad("Close, Close again, reopen")
	case "save-flush-after-close":
		if err := b.st.Close(); err != nil {
			r.Violation("region-storage-close-or-reopen-fails", fmt.Sprintf("Close failed: %v", err), map[string]interface{}{"spec": sp})
			return
		}
		// the closed object is still used (a late heartbeat): whatever SaveRegion AND a following Flush
		// acknowledge with nil has to be there afterwards; errors promise nothing
		var pan interface{}
		func() {
			defer func() { pan = recover() }()
			late := map[uint64]item{}
			for _, id := range lateIDs[:1+rng.Intn(len(lateIDs))] {
				reg := genRegion(rng, id, 7, "small", 0, 1)
				if err := b.st.SaveRegion(reg); err != nil {
					r.Count("lifecycle_save_after_close_returned_error", 1)
					continue
				}
				bs, _ := reg.Marshal()
				late[id] = item{Bytes: bs}
			}
			if err := b.st.Flush(); err != nil {
				r.Count("lifecycle_flush_after_close_returned_error", 1)
				for id := range late {
					extraMay[id] = true
				}
			} else {
				r.Count("lifecycle_flush_after_close_returned_nil", 1)
				for id, it := range late {
					must[id] = it
				}
			}
		}()
		if pan != nil {
			r.Violation("region-storage-use-after-close-panics", fmt.Sprintf("SaveRegion / Flush on a closed region storage panicked: %v", pan), map[string]interface{}{"spec": sp})
			return
		}
		b.cancel()
		b.rs = nil
		if err := b.openRS(b.rsDir); err != nil {
			r.Violation("region-storage-close-or-reopen-fails", fmt.Sprintf("reopen failed: %v", err), map[string]interface{}{"spec": sp})
			return
		}
		fullLoad("Close, SaveRegion + Flush on the closed object, reopen")
	default:
		r.Inconclusive("unknown lifecycle history %q", sp.Hist)
		return
	}
	r.Count("lifecycle_cases_judged", 1)
}

// runLdbLifecycle: LevelDB used as a plain kv: Close twice, then open the directory again.
func (x *runner) runLdbLifecycle(sp Spec) {
	r := x.r
	rng := rand.New(rand.NewSource(sp.Seed))
	b, err := newBackend("leveldb")
	if err != nil {
		r.Inconclusive("backend: %v", err)
		return
	}
	defer b.close()
	ids := genIDs(rng, sp.IDGen, sp.N)
	regs, stores := map[uint64]item{}, map[uint64]item{}
	for i, id := range ids {
		if i%2 == 0 {
			reg := genRegion(rng, id, 0, "edgy", 0, 1)
			if err := b.st.SaveRegion(reg); err != nil {
				r.Inconclusive("SaveRegion: %v", err)
				return
			}
			bs, _ := reg.Marshal()
			regs[id] = item{Bytes: bs}
		} else {
			s := genStore(rng, id, 0, false)
			if err := b.st.SaveStore(s); err != nil {
				r.Inconclusive("SaveStore: %v", err)
				return
			}
			bs, _ := s.Marshal()
			stores[id] = item{Bytes: bs, LW: 1, RW: 1}
		}
	}
	var pan interface{}
	func() {
		defer func() { pan = recover() }()
		if err := b.ldb.Close(); err != nil {
			r.Violation("leveldb-kv-close-fails", fmt.Sprintf("LeveldbKV.Close failed: %v", err), map[string]interface{}{"spec": sp})
		}
		if err := b.ldb.Close(); err != nil {
			r.Count("lifecycle_second_close_returned_error", 1)
		}
		// reads on the closed kv must fail or be empty-handed, not crash
		if err := b.st.LoadStores(func(*core.StoreInfo) {}); err != nil {
			r.Count("lifecycle_load_on_closed_kv_returned_error", 1)
		}
	}()
	if pan != nil {
		r.Violation("leveldb-kv-use-after-close-panics", fmt.Sprintf("Close twice / load on the closed LevelDB kv panicked: %v", pan), map[string]interface{}{"spec": sp})
		return
	}
	b.ldb = nil
	if err := b.reopenLDB(); err != nil {
		r.Violation("leveldb-kv-reopen-fails", fmt.Sprintf("the LevelDB directory cannot be opened again after a double Close: %v", err), map[string]interface{}{"spec": sp})
		return
	}
	extra := map[string]interface{}{"family": "lifecycle", "phase": "LevelDB kv: Close, Close, reopen"}
	x.judgeLoad(sp, "stores", x.loadStores(b, len(stores)), stores, nil, false, extra)
	x.judgeLoad(sp, "regions", x.loadRegions(b, "LoadRegions", len(regs), nil), regs, nil, false, extra)
	r.Count("lifecycle_cases_judged", 1)
}

// runEtcdCancel (thorough): the etcd client the kv is built on is closed (its context cancelled) in
// the middle of a pruning load; the load has to end (error or complete), and a retry over a fresh
// client with the same cache has to leave storage == cache.
func (x *runner) runEtcdCancel(sp Spec) {
	r := x.r
	rng := rand.New(rand.NewSource(sp.Seed))
	b, err := newBackend("etcd-own")
	if err != nil {
		r.Inconclusive("backend: %v", err)
		return
	}
	defer b.close()
	ids := genIDs(rng, sp.IDGen, sp.N)
	world := genWorld(rng, ids, "small")
	must := map[uint64]item{}
	for _, reg := range world {
		if err := b.st.SaveRegion(reg); err != nil {
			r.Inconclusive("SaveRegion: %v", err)
			return
		}
		bs, _ := reg.Marshal()
		must[reg.Id] = item{Bytes: bs}
		r.Count("ops_save_region", 1)
	}
	lim, _ := setLimit(b, sp, must, feasiblePage)
	cache := core.NewBasicCluster()
	reported := map[uint64]bool{}
	at := 1 + rng.Intn(feasiblePage)
	n := 0
	closing := true
	cb := func(ri *core.RegionInfo) []*core.RegionInfo {
		n++
		if closing && n == at {
			b.cli.Close() // cancels the client context: every later read fails
			r.Count("etcd_client_closed_mid_load", 1)
		}
		ov := cache.CheckAndPutRegion(ri)
		for _, o := range ov {
			reported[o.GetID()] = true
		}
		return ov
	}
	res := x.loadRegions(b, "LoadRegions", len(must), cb)
	extra := map[string]interface{}{"phase": "etcd client closed at delivery", "at": at, "response_limit_bytes": lim}
	x.judgeLoad(sp, "regions", res, must, nil, true, extra)
	if res.Err != nil {
		r.Count("loads_failed_by_closed_etcd_client", 1)
	}
	if res.Loop != nil || res.PdPanic != "" || res.Budget != nil || res.Aborted {
		return
	}
	closing = false
	b.cli = nil
	if err := b.reconnect(); err != nil {
		r.Inconclusive("reconnect: %v", err)
		return
	}
	now, err := b.rawRegions()
	if err != nil {
		r.Inconclusive("raw scan: %v", err)
		return
	}
	must2 := map[uint64]item{}
	for id := range now {
		if it, ok := must[id]; ok {
			must2[id] = it
		}
	}
	lim, _ = setLimit(b, sp, must2, feasiblePage)
	res2 := x.loadRegions(b, "LoadRegions", len(must2), cb)
	extra["phase"] = "retry over a fresh client with the same cache"
	und := x.judgeLoad(sp, "regions", res2, must2, nil, false, extra)
	if res2.Err != nil || res2.Loop != nil || res2.PdPanic != "" || res2.Budget != nil || res2.Aborted {
		return
	}
	x.pruneKeySuffix = ":retry-after-failed-delete"
	x.checkPruned(sp, b, "LoadRegions", res2, must, cache, reported, und, lim)
	x.pruneKeySuffix = ""
}

// runRetryDelete: the pruning load fails because a DELETE of an overlapped region fails (the cache has
// already been changed by then), and the load is retried with the same cache on the same Storage, as
// LoadClusterInfo does after a failed LoadRegionsOnce of the region syncer. sp.N == 2 is the directed
// minimal world: two overlapping regions of equal version.
func (x *runner) runRetryDelete(sp Spec) {
	r := x.r
	rng := rand.New(rand.NewSource(sp.Seed))
	b, err := newBackend(sp.Backend)
	if err != nil {
		r.Inconclusive("backend %s: %v", sp.Backend, err)
		return
	}
	defer b.close()
	var world []*metapb.Region
	if sp.N == 2 {
		world = []*metapb.Region{
			{Id: 1, StartKey: []byte("a"), EndKey: []byte("c"), RegionEpoch: &metapb.RegionEpoch{ConfVer: 1, Version: 8}, Peers: []*metapb.Peer{{Id: 11, StoreId: 1}}},
			{Id: 2, StartKey: []byte("b"), EndKey: []byte("d"), RegionEpoch: &metapb.RegionEpoch{ConfVer: 1, Version: 8}, Peers: []*metapb.Peer{{Id: 12, StoreId: 1}}},
		}
	} else {
		world = genWorld(rng, genIDs(rng, sp.IDGen, sp.N), "small")
	}
	must := map[uint64]item{}
	for _, reg := range world {
		if err := b.st.SaveRegion(reg); err != nil {
			r.Inconclusive("SaveRegion: %v", err)
			return
		}
		bs, _ := reg.Marshal()
		must[reg.Id] = item{Bytes: bs}
		r.Count("ops_save_region", 1)
	}
	cache := core.NewBasicCluster()
	reported := map[uint64]bool{}
	var trace []string
	cb := func(ri *core.RegionInfo) []*core.RegionInfo {
		ov := cache.CheckAndPutRegion(ri)
		ev := fmt.Sprintf("deliver %d ->", ri.GetID())
		for _, o := range ov {
			reported[o.GetID()] = true
			ev += fmt.Sprintf(" delete %d", o.GetID())
		}
		if len(trace) < 40 {
			trace = append(trace, ev)
		}
		return ov
	}
	mode := kvx.FailBefore
	if sp.Fault == "lost-ack" {
		mode = kvx.LostAck
	}
	b.kvx.FailWrite(int64(1+rng.Intn(3)), mode) // the k-th storage write from now = the k-th delete of the load
	if sp.N == 2 {
		b.kvx.FailWrite(1, mode)
	}
	res := x.loadRegions(b, "LoadRegionsOnce", len(must), cb)
	inj := b.kvx.Injected()
	b.kvx.ResetFaults()
	r.Count("delete_faults_injected_inside_a_pruning_load", inj)
	extra := map[string]interface{}{"phase": "pruning load in which one delete fails (" + sp.Fault + ")", "calls": trace}
	x.judgeLoad(sp, "regions", res, must, nil, inj > 0, extra)
	if res.Loop != nil || res.PdPanic != "" || res.Budget != nil || res.Aborted {
		return
	}
	if res.Err != nil {
		r.Count("prune_loads_failed_on_a_delete_then_retried", 1)
	}
	trace = append(trace, fmt.Sprintf("first LoadRegionsOnce returned %v; retry with the same cache", res.Err))
	now, err := b.rawRegions()
	if err != nil {
		r.Inconclusive("raw scan: %v", err)
		return
	}
	must2 := map[uint64]item{}
	for id := range now {
		if it, ok := must[id]; ok {
			must2[id] = it
		}
	}
	res2 := x.loadRegions(b, "LoadRegionsOnce", len(must2), cb)
	extra["phase"], extra["calls"] = "retry with the same cache on the same Storage", trace
	und := x.judgeLoad(sp, "regions", res2, must2, nil, false, extra)
	if res2.Err != nil || res2.Loop != nil || res2.PdPanic != "" || res2.Budget != nil || res2.Aborted {
		return
	}
	x.pruneKeySuffix = ":retry-after-failed-delete"
	x.checkPruned(sp, b, "LoadRegionsOnce", res2, must, cache, reported, und, 0)
	x.pruneKeySuffix = ""
}
