// C17 — Persisted stores and regions are loaded back completely and pruned consistently.
//
// The real core.Storage is driven over an instrumented memory kv, over LevelDB as a plain kv.Base,
// over the batching region storage (LevelDB in a temp dir, wired with WithRegionStorage +
// SwitchToRegionStorage) and, in the thorough tier, over the etcd kv of an embedded etcd.
// Generated save / overwrite / delete (/ flush) histories over hostile id distributions and
// cardinalities around every paging boundary are applied through SaveStore / SaveStoreWeight /
// DeleteStore / SaveRegion / DeleteRegion / Flush / Close; a reference set model is kept on the side.
// LoadStores / LoadRegions / LoadRegionsOnce are then monitored:
//   - exactly-once oracle on the callback deliveries (missing, duplicated, deleted-but-returned,
//     wrong content, wrong weight, error, panic);
//   - the page sequence at the kv boundary: a load is declared non-terminating only when its page
//     sequence repeats (three identical periods, no write in between);
//   - pruning: LoadRegions(BasicCluster.CheckAndPutRegion) over seeded stale/overlapping leftovers,
//     afterwards an independent scan of the medium must equal the cache content and the cache must
//     be free of overlaps (brute force);
//   - "stop between batches": the quiescent LevelDB directory is copied between two flushes and
//     opened with fresh objects.
package main

import (
	"encoding/json"
	"fmt"
	"io/ioutil"
	"math/rand"

	"verif/harness/lib/ev"
)

func pick(rng *rand.Rand, l []string) string { return l[rng.Intn(len(l))] }

// buildCases returns the case list of this seed and tier (never depends on time).
func buildCases(r *ev.Run, rng *rand.Rand) []Spec {
	var cs []Spec
	for round := 0; round < r.Pick(1, 6); round++ {
		cs = append(cs, buildRound(r, rng, round)...)
	}
	return cs
}

// buildRound: one pass over the grid of boundary cardinalities x generators; the very large cases
// are generated in round 0 only.
func buildRound(r *ev.Run, rng *rand.Rand, round int) []Spec {
	var cs []Spec
	add := func(s Spec) {
		s.Seed = rng.Int63()
		cs = append(cs, s)
	}
	th := r.Thorough()
	hists := []string{"plain", "overwrite", "delete", "mixed"}
	ends := []string{"flush", "close"}

	// ---- stores: every cardinality around the fixed page of 100 x every id generator
	storeNs := []int{0, 1, 2, 99, 100, 101, 199, 200, 201, 300, 301}
	for _, n := range storeNs {
		for _, g := range idGens {
			add(Spec{Kind: "stores", Backend: "mem", IDGen: g, N: n, Hist: pick(rng, hists)})
			if th {
				for _, h := range hists {
					add(Spec{Kind: "stores", Backend: "mem", IDGen: g, N: n, Hist: h, Keys: pick(rng, []string{"small", "large"}), W: rng.Intn(2)})
				}
			}
		}
	}
	// every store with explicit weights, removed stores leave their weight records behind
	for _, n := range []int{1, 2, 3, 4, 50, 99, 100, 101, 150, 201, 330} {
		add(Spec{Kind: "stores", Backend: "mem", IDGen: pick(rng, []string{"dense1", "dense-offset", "near-2^63", "dec-prefix", "top-no-max"}), N: n, Hist: "weighted-tombstones"})
		add(Spec{Kind: "stores", Backend: pick(rng, []string{"mem", "leveldb"}), IDGen: pick(rng, idGens), N: n, Hist: "weighted-tombstones"})
	}
	for _, n := range []int{0, 99, 100, 101, 200, 201} {
		add(Spec{Kind: "stores", Backend: "leveldb", IDGen: pick(rng, idGens), N: n, Hist: pick(rng, hists)})
		add(Spec{Kind: "stores", Backend: "mem", IDGen: pick(rng, idGensNoMax), N: n, Hist: pick(rng, hists), Keys: "large", W: 1})
		if th {
			add(Spec{Kind: "stores", Backend: "etcd", IDGen: pick(rng, idGens), N: n, Hist: pick(rng, hists)})
			add(Spec{Kind: "stores", Backend: "regionstorage", IDGen: pick(rng, idGens), N: n, Hist: pick(rng, hists)})
		}
	}

	// ---- regions, exactly once
	// no response limit: the page is 10000
	for _, n := range []int{0, 1, 2, 99, 100, 101, 199, 200, 201, 500} {
		for _, g := range idGens {
			if !th && rng.Intn(3) != 0 {
				continue
			}
			add(Spec{Kind: "regions", Backend: "mem", IDGen: g, N: n, Hist: pick(rng, hists), Keys: "small"})
		}
		add(Spec{Kind: "regions", Backend: "leveldb", IDGen: pick(rng, idGens), N: n, Hist: pick(rng, hists), Keys: "small"})
	}
	// the emulated response limit forces the adaptive page size down to W: cardinalities around multiples of W
	ws := []int{156, 312, 625}
	if th {
		ws = append(ws, 1250, 2500, 5000)
	}
	for _, w := range ws {
		ns := []int{w - 1, w, w + 1, 2*w - 1, 2 * w, 2*w + 1, 3*w + 1}
		if !th && w == 625 {
			ns = []int{624, 625, 626, 1199}
		}
		if w >= 2500 {
			ns = []int{w - 1, w, w + 1, 2 * w, 2*w + 1}
		}
		for _, n := range ns {
			reps := 2
			if th && w <= 625 {
				reps = 6
			}
			if w >= 1250 {
				reps = 1
			}
			for k := 0; k < reps; k++ {
				g := pick(rng, idGens)
				if k == 0 {
					g = pick(rng, idGensNoMax)
				}
				add(Spec{Kind: "regions", Backend: "mem", IDGen: g, N: n, Hist: pick(rng, hists), Keys: "small", W: w})
			}
			if th && w <= 625 {
				add(Spec{Kind: "regions", Backend: "leveldb", IDGen: pick(rng, idGens), N: n, Hist: pick(rng, hists), Keys: "small", W: w})
				if n <= 700 {
					add(Spec{Kind: "regions", Backend: "etcd", IDGen: pick(rng, idGens), N: n, Hist: pick(rng, hists), Keys: "small", W: w})
				}
			}
		}
	}
	// large keys (up to 8 KB each) and a heavy tail: the limit bites in the middle of the scan
	for _, n := range []int{157, 200, 313, 470} {
		for _, kc := range []string{"large", "heavytail"} {
			add(Spec{Kind: "regions", Backend: "mem", IDGen: pick(rng, idGensNoMax), N: n, Hist: pick(rng, hists), Keys: kc, W: 156})
			add(Spec{Kind: "regions", Backend: "mem", IDGen: pick(rng, idGens), N: n, Hist: "plain", Keys: kc, W: []int{156, 312}[rng.Intn(2)]})
			if th {
				add(Spec{Kind: "regions", Backend: "etcd", IDGen: pick(rng, idGens), N: n, Hist: "plain", Keys: kc, W: 156})
				add(Spec{Kind: "regions", Backend: "leveldb", IDGen: pick(rng, idGens), N: n, Hist: pick(rng, hists), Keys: kc, W: 156})
			}
		}
	}
	// infeasible limits: only termination is judged
	for _, n := range []int{1, 100, 157, 400} {
		add(Spec{Kind: "regions", Backend: "mem", IDGen: pick(rng, idGensNoMax), N: n, Hist: "plain", Keys: "small", W: -1})
		add(Spec{Kind: "regions", Backend: "mem", IDGen: pick(rng, idGensNoMax), N: n, Hist: "plain", Keys: pick(rng, []string{"small", "large"}), W: -2})
	}
	// batching region storage: cardinalities around the batch size, flush vs close+reopen
	rsNs := []int{0, 1, 99, 100, 101, 199, 200, 201, 250, 1000}
	for _, n := range rsNs {
		for _, e := range ends {
			add(Spec{Kind: "regions", Backend: "regionstorage", IDGen: pick(rng, idGens), N: n, Hist: pick(rng, hists), Keys: "small", End: e})
			add(Spec{Kind: "regions", Backend: "regionstorage", IDGen: pick(rng, idGensNoMax), N: n, Hist: pick(rng, []string{"plain", "overwrite"}), Keys: "small", End: e})
			add(Spec{Kind: "regions", Backend: "regionstorage", IDGen: pick(rng, idGens), N: n, Hist: "unflushed-delete", Keys: pick(rng, []string{"small", "large"}), End: e})
			if th {
				for _, g := range idGens {
					add(Spec{Kind: "regions", Backend: "regionstorage", IDGen: g, N: n, Hist: pick(rng, hists), Keys: "small", End: e})
				}
			}
		}
	}
	if th && round == 0 {
		// the default page of 10000 and beyond
		for _, n := range []int{9999, 10000, 10001, 20001} {
			for _, be := range []string{"mem", "regionstorage", "leveldb"} {
				add(Spec{Kind: "regions", Backend: be, IDGen: pick(rng, idGensNoMax), N: n, Hist: "plain", Keys: "small", End: pick(rng, ends)})
				add(Spec{Kind: "regions", Backend: be, IDGen: pick(rng, idGens), N: n, Hist: pick(rng, hists), Keys: "small", End: pick(rng, ends)})
			}
		}
		add(Spec{Kind: "regions", Backend: "etcd", IDGen: "sparse-no-max", N: 10001, Hist: "plain", Keys: "small"})
		add(Spec{Kind: "regions", Backend: "etcd", IDGen: "top-no-max", N: 10000, Hist: "plain", Keys: "small"})
		add(Spec{Kind: "stores", Backend: "mem", IDGen: "sparse", N: 10001, Hist: "mixed"})
	}

	// ---- pruning
	np := r.Pick(26, 160)
	for i := 0; i < np; i++ {
		n := []int{2, 3, 10, 60, 157, 200, 330, 600}[rng.Intn(8)]
		add(Spec{Kind: "prune", Backend: "mem", IDGen: pick(rng, idGens), N: n, Keys: pick(rng, []string{"small", "small", "large"}), W: []int{0, 156, 156, 312}[rng.Intn(4)]})
		add(Spec{Kind: "prune", Backend: "mem", IDGen: pick(rng, idGensNoMax), N: n, Keys: "small", W: []int{0, 156}[rng.Intn(2)]})
		add(Spec{Kind: "prune", Backend: "regionstorage", IDGen: pick(rng, idGens), N: n, Keys: "small", End: pick(rng, ends)})
		if i%2 == 0 {
			add(Spec{Kind: "prune", Backend: "leveldb", IDGen: pick(rng, idGens), N: n, Keys: "small", W: []int{0, 156}[rng.Intn(2)]})
		}
		if th && i%4 == 0 {
			add(Spec{Kind: "prune", Backend: "etcd", IDGen: pick(rng, idGens), N: n, Keys: "small", W: []int{0, 156}[rng.Intn(2)]})
		}
	}
	if th && round == 0 {
		add(Spec{Kind: "prune", Backend: "mem", IDGen: "sparse-no-max", N: 15000, Keys: "small"})
		add(Spec{Kind: "prune", Backend: "regionstorage", IDGen: "mixed-no-max", N: 15000, Keys: "small", End: "close"})
	}

	// ---- stop between two batches (directory copy)
	nc := r.Pick(36, 300)
	for i := 0; i < nc; i++ {
		n := []int{1, 50, 99, 100, 101, 150, 199, 200, 201, 260, 399, 400, 550}[rng.Intn(13)]
		add(Spec{Kind: "crash", Backend: "regionstorage", IDGen: pick(rng, idGens), N: n})
	}
	// ---- concurrent writers + flusher
	nk := r.Pick(10, 100)
	for i := 0; i < nk; i++ {
		add(Spec{Kind: "concurrent", Backend: "regionstorage", IDGen: pick(rng, idGensNoMax), N: 50 + rng.Intn(600), End: pick(rng, ends)})
	}
	// ---- scale: stores beyond 1000/1024 and a few thousand; regions around the halved page sizes 1250/2500/5000
	// and the default page of 10000 (quick too, small keys)
	for _, n := range []int{999, 1000, 1001, 1023, 1024, 1025, 2500} {
		add(Spec{Kind: "stores", Backend: "mem", IDGen: pick(rng, idGens), N: n, Hist: pick(rng, hists)})
	}
	add(Spec{Kind: "stores", Backend: "leveldb", IDGen: pick(rng, idGens), N: 1025, Hist: "mixed"})
	if !th {
		for _, c := range [][2]int{{1250, 1249}, {1250, 1250}, {1250, 1251}, {1250, 2501}, {2500, 2500}, {2500, 2501}, {5000, 5001}, {0, 10001}} {
			add(Spec{Kind: "regions", Backend: "mem", IDGen: pick(rng, idGens), N: c[1], Hist: pick(rng, []string{"plain", "delete"}), Keys: "small", W: c[0]})
		}
		add(Spec{Kind: "regions", Backend: "regionstorage", IDGen: pick(rng, idGens), N: 10001, Hist: "plain", Keys: "small", End: pick(rng, ends)})
	}
	// ---- other writers inside a running load (+ read faults inside it), retried on the same Storage
	for _, what := range []string{"stores", "regions"} {
		for _, fault := range []string{"", "", "transient-range", "persistent-range", "transient-load"} {
			if what == "regions" && fault == "transient-load" {
				continue
			}
			n := []int{150, 250, 330}[rng.Intn(3)]
			if what == "regions" {
				n = []int{200, 330, 500}[rng.Intn(3)]
			}
			add(Spec{Kind: "interleave", Backend: "mem", IDGen: pick(rng, idGensRoomy), N: n, What: what, Fault: fault, W: 156})
			add(Spec{Kind: "interleave", Backend: pick(rng, []string{"mem", "leveldb"}), IDGen: pick(rng, idGens), N: n, What: what, Fault: fault, W: 156})
			if th {
				add(Spec{Kind: "interleave", Backend: "etcd", IDGen: pick(rng, idGens), N: n, What: what, Fault: fault, W: 156})
				add(Spec{Kind: "interleave", Backend: "mem", IDGen: pick(rng, idGens), N: 1030, What: what, Fault: fault, W: 156})
			}
		}
		if what == "stores" {
			// a read fault on one chosen weight read (first store, around the page boundary, last store)
			for _, ord := range []int{1, 2, 199, 200, 201, 202, 299, 300} {
				add(Spec{Kind: "interleave", Backend: "mem", IDGen: pick(rng, idGens), N: 150, What: what, Fault: "transient-load", Hist: "directed", W: ord})
			}
			for k := 0; k < 4; k++ {
				add(Spec{Kind: "interleave", Backend: "mem", IDGen: pick(rng, idGens), N: 120 + rng.Intn(100), What: what, Fault: "transient-load"})
			}
		}
		add(Spec{Kind: "interleave", Backend: "regionstorage", IDGen: pick(rng, idGens), N: 300, What: what})
		add(Spec{Kind: "interleave", Backend: "mem", IDGen: pick(rng, idGens), N: 1030, What: what, W: 156})
	}
	for i := 0; i < r.Pick(4, 12); i++ {
		add(Spec{Kind: "faultprune", Backend: pick(rng, []string{"mem", "mem", "leveldb"}), IDGen: pick(rng, idGens), N: []int{330, 470, 700}[rng.Intn(3)], W: 156})
		add(Spec{Kind: "cycles", Backend: pick(rng, []string{"mem", "leveldb", "regionstorage"}), IDGen: pick(rng, idGens), N: []int{60, 300, 700}[rng.Intn(3)], What: "regions", W: []int{0, 156}[rng.Intn(2)]})
		add(Spec{Kind: "cycles", Backend: "regionstorage", IDGen: pick(rng, idGens), N: []int{60, 300, 700}[rng.Intn(3)], What: "regions"})
		add(Spec{Kind: "cycles", Backend: pick(rng, []string{"mem", "leveldb"}), IDGen: pick(rng, idGens), N: []int{150, 310, 1100}[rng.Intn(3)], What: "stores"})
		add(Spec{Kind: "switch", Backend: "regionstorage", IDGen: pick(rng, idGens), N: 200 + rng.Intn(600)})
		add(Spec{Kind: "flushload", Backend: "regionstorage", IDGen: pick(rng, idGens), N: 100 + rng.Intn(300), End: pick(rng, ends)})
		if th {
			add(Spec{Kind: "faultprune", Backend: "etcd", IDGen: pick(rng, idGens), N: 330, W: 156})
			add(Spec{Kind: "cycles", Backend: "etcd", IDGen: pick(rng, idGens), N: 300, What: pick(rng, []string{"stores", "regions"}), W: 156})
		}
	}
	// ---- lifecycle: the parent (server) context of the region storage is cancelled before Close / before
	// Flush / between saves / after Close, with 1..150 regions pending in the batch (W = pending)
	for _, pend := range []int{1, 50, 99, 100, 150} {
		add(Spec{Kind: "lifecycle", Backend: "regionstorage", IDGen: pick(rng, idGens), N: []int{0, 120}[rng.Intn(2)], Hist: "double-close", W: pend})
		add(Spec{Kind: "lifecycle", Backend: "regionstorage", IDGen: pick(rng, idGens), N: []int{0, 120}[rng.Intn(2)], Hist: "save-flush-after-close", W: pend})
	}
	for _, n := range []int{1, 150, 401} {
		add(Spec{Kind: "ldblifecycle", Backend: "leveldb", IDGen: pick(rng, idGens), N: n})
	}
	// a delete of the pruning load fails, the load is retried with the same cache: the directed 2-region
	// world (two overlapping regions of equal version) and generated worlds, both fault modes
	for _, f := range []string{"fail-before", "lost-ack"} {
		add(Spec{Kind: "retrydelete", Backend: "mem", IDGen: "dense1", N: 2, Fault: f})
		add(Spec{Kind: "retrydelete", Backend: "leveldb", IDGen: "dense1", N: 2, Fault: f})
		for k := 0; k < r.Pick(4, 8); k++ {
			add(Spec{Kind: "retrydelete", Backend: pick(rng, []string{"mem", "mem", "leveldb"}), IDGen: pick(rng, idGens), N: []int{30, 120, 330}[rng.Intn(3)], Fault: f})
		}
	}
	if th {
		for k := 0; k < 2; k++ {
			add(Spec{Kind: "etcdcancel", Backend: "etcd-own", IDGen: pick(rng, idGens), N: []int{330, 470}[rng.Intn(2)], W: 156})
		}
	}
	// ---- equivalent spellings / edge values: weights NaN, negative, -0, +-Inf, huge, denormal; overwrites that differ
	// from the stored record in exactly one field; region keys with 0x00 / 0xff / '/' / ',' and prefix chains
	for _, n := range []int{3, 101, 250} {
		add(Spec{Kind: "stores", Backend: pick(rng, []string{"mem", "leveldb"}), IDGen: pick(rng, idGens), N: n, Hist: "weighted-tombstones", Keys: "edge-weights"})
		add(Spec{Kind: "stores", Backend: "mem", IDGen: pick(rng, idGens), N: n, Hist: "overwrite", Keys: "one-field"})
		for _, be := range []string{"mem", "regionstorage", "leveldb"} {
			add(Spec{Kind: "regions", Backend: be, IDGen: pick(rng, idGens), N: n, Hist: pick(rng, []string{"overwrite", "mixed"}), Keys: "one-field", End: pick(rng, ends)})
			add(Spec{Kind: "regions", Backend: be, IDGen: pick(rng, idGens), N: n, Hist: pick(rng, hists), Keys: "edgy", End: pick(rng, ends)})
		}
		add(Spec{Kind: "prune", Backend: pick(rng, []string{"mem", "regionstorage", "leveldb"}), IDGen: pick(rng, idGens), N: n, Keys: "edgy", End: pick(rng, ends)})
		add(Spec{Kind: "prune", Backend: "mem", IDGen: pick(rng, idGens), N: n, Keys: "edgy"})
	}
	for _, h := range []string{"cancel-before-close", "cancel-before-flush", "cancel-between-saves", "cancel-after-close"} {
		for _, pend := range []int{1, 2, 50, 99, 100, 101, 150} {
			add(Spec{Kind: "lifecycle", Backend: "regionstorage", IDGen: pick(rng, idGens), N: []int{0, 1, 120, 260}[rng.Intn(4)], Hist: h, W: pend})
		}
	}
	// ---- concurrent LoadRegionsOnce while a load is provably in flight (Keys = where the first load is
	// parked, W = number of concurrent callers, Hist = whether the first load is made to fail)
	for _, pos := range []string{"first", "middle", "last"} {
		for _, callers := range []int{2, 3} {
			for _, h := range []string{"first-load-completes", "first-load-fails"} {
				reps := r.Pick(1, 2)
				for k := 0; k < reps; k++ {
					n := []int{3, 10, 60, 200, 450}[rng.Intn(5)]
					add(Spec{Kind: "once", Backend: "regionstorage", IDGen: pick(rng, []string{"dense1", "dense-offset", "sparse-no-max", "near-2^63", "pow10"}), N: n, Hist: h, Keys: pos, W: callers, End: pick(rng, ends)})
				}
			}
		}
	}
	return cs
}

func (x *runner) runCase(sp Spec) {
	defer func() {
		if p := recover(); p != nil {
			x.r.Inconclusive("harness panic in case %s: %v", sp, p)
		}
	}()
	switch sp.Kind {
	case "stores":
		x.runStores(sp)
	case "regions":
		x.runRegions(sp)
	case "prune":
		x.runPrune(sp)
	case "crash":
		x.runCrash(sp)
	case "concurrent":
		x.runConcurrent(sp)
	case "once":
		x.runOnce(sp)
	case "interleave":
		x.runInterleave(sp)
	case "faultprune":
		x.runFaultPrune(sp)
	case "cycles":
		x.runCycles(sp)
	case "switch":
		x.runSwitch(sp)
	case "flushload":
		x.runFlushLoad(sp)
	case "lifecycle":
		x.runLifecycle(sp)
	case "ldblifecycle":
		x.runLdbLifecycle(sp)
	case "etcdcancel":
		x.runEtcdCancel(sp)
	case "retrydelete":
		x.runRetryDelete(sp)
	default:
		x.r.Inconclusive("unknown case kind %q", sp.Kind)
		return
	}
	x.r.Eval(1)
	x.r.Count("cases_"+sp.Kind+"_"+sp.Backend, 1)
	// distinct = shape of the case, not its random contents
	x.r.Distinct(fmt.Sprintf("%s|%s|%s|%d|%s|%s|%d|%s|%s|%s", sp.Kind, sp.Backend, sp.IDGen, sp.N, sp.Hist, sp.Keys, sp.W, sp.End, sp.What, sp.Fault))
}

func main() {
	r := ev.New("C17", "exploration")
	r.Rule("one case = (kind, backend, id generator, live cardinality, history shape, key-size class, response-limit page size W, flush|close) with seeded contents; " +
		"cardinalities are placed around every paging boundary (100 for stores; W-1,W,W+1,2W-1,2W,2W+1,3W+1 for the page size W that the emulated response-size limit forces; 9999/10000/10001/20001 in the thorough tier; 99/100/101/... around the region-storage batch), " +
		"id generators: dense from 1, dense with offset, sparse random uint64, around 2^63, around powers of ten, top of the range with and without 2^64-1, sparse top, mixed; " +
		"histories: plain, overwrite, delete, mixed (delete and save again), delete of a still-unflushed save (not judged); a case is distinct by that tuple (contents and seeds are not counted)")
	r.Assume("the reference model is a set: last saved content per id, minus deleted ids; weights default to 1 when never saved; a store saved again after a delete always gets its weights saved again")
	r.Assume("ids are >= 1 (pd never allocates id 0); weights are finite and non-negative")
	r.Assume("the response-size limit is emulated by lib/kvx (error when a LoadRange reply exceeds B bytes); B always lets 156 consecutive items through, otherwise the case is 'infeasible' and only termination is judged")
	r.Assume("'stop of the process between two batches' = copy of the LevelDB directory taken while no write is in flight (cases in which the background flusher could have run during the copy are skipped and counted); files written without fsync are assumed to survive a process stop (they are in the OS cache)")
	r.Assume("the independent storage scan uses a plain LevelDB iterator / one etcd prefix Get / one unlimited range over the memory kv, not the paging code under test")
	r.Assume("non-termination is reported only when the page sequence at the kv boundary repeats three times without a write in between; the region storage's own LevelDB reads cannot be intercepted (loads over it are bounded by a delivery budget and the process watchdog => inconclusive)")
	rng := rand.New(rand.NewSource(r.ShardSeed()))
	x := &runner{r: r, minimized: map[string]bool{}}

	if r.Replay != "" {
		var doc struct {
			Witness struct {
				Spec Spec `json:"spec"`
			} `json:"witness"`
		}
		b, err := ioutil.ReadFile(r.Replay)
		if err != nil || json.Unmarshal(b, &doc) != nil || doc.Witness.Spec.Kind == "" {
			r.Inconclusive("cannot read a case spec from replay file %s", r.Replay)
			r.Finish()
		}
		fmt.Printf("replaying %s\n", doc.Witness.Spec)
		x.runCase(doc.Witness.Spec)
		closeEtcd()
		r.Finish()
	}

	// the case list is generated from the run seed only (identical in every shard); a shard runs its slice
	all := buildCases(r, rand.New(rand.NewSource(r.Seed*1000003)))
	_ = rng
	mine := 0
	for i, sp := range all {
		if i%r.Shards != r.Shard {
			continue
		}
		mine++
		x.runCase(sp)
		if mine <= 400 && mine%100 == 3 {
			r.Sample(sp)
		}
	}
	closeEtcd()
	if r.Shard == 0 {
		r.Set("cases_in_tier", len(all))
	}
	if c := r.Counter("crash_cases_with_100_or_more_saves_since_last_flush"); c > 0 && r.Counter("crash_cases_where_storage_wrote_a_batch_on_its_own") == 0 {
		r.Inconclusive("in %d cases with >= 100 saves since the last Flush the region storage never wrote anything on its own: no stop point between two batches was reached", c)
	}
	if r.Shards == 1 {
		if r.Counter("crash_copies") == 0 {
			r.Inconclusive("no directory copy was evaluated")
		}
		if r.Counter("loads_with_reduced_page_size") == 0 {
			r.Inconclusive("the emulated response limit never forced the page size down")
		}
		if r.Counter("once_first_load_parked_in_flight") == 0 || r.Counter("once_calls_returned_nil") == 0 {
			r.Inconclusive("no concurrent LoadRegionsOnce case had a load parked in flight")
		}
		for _, c := range []string{"interleave_writes_inside_a_running_load", "loads_failed_by_injected_read_fault", "prune_loads_failed_midway_then_retried",
			"load_prune_cycles_on_a_long_lived_storage", "switch_loads_judged", "flushload_loads_that_overlapped_running_writers", "lifecycle_parent_cancelled_with_pending_batch", "prune_loads_failed_on_a_delete_then_retried"} {
			if r.Counter(c) == 0 {
				r.Inconclusive("coverage: counter %s is 0", c)
			}
		}
		if r.Counter("prune_cases_that_pruned") == 0 {
			r.Inconclusive("no pruning case pruned anything")
		}
	}
	r.Floor(int64(r.Pick(300, 100)))
	r.Finish()
}
