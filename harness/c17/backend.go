package main

import (
	"context"
	"errors"
	"fmt"
	"io"
	"io/ioutil"
	"os"
	"path/filepath"
	"strconv"
	"strings"
	"sync"
	"time"

	"github.com/pingcap/kvproto/pkg/metapb"
	"github.com/tikv/pd/server/core"
	"github.com/tikv/pd/server/kv"
	"go.etcd.io/etcd/clientv3"
	"verif/harness/lib/etcdx"
	"verif/harness/lib/kvx"
)

const (
	storePrefix  = "raft/s/"
	regionPrefix = "raft/r/"
)

// ---------------------------------------------------------------------------------------------
// pageWatch: the observer at the KV boundary. It sits between core.Storage and kvx and records the
// page sequence (LoadRange request + shape of the reply) of the load that is running. A load whose
// page sequence repeats three times in a row without any storage write in between makes no
// progress and never will: that is the only way "does not terminate" is turned into a verdict.
// ---------------------------------------------------------------------------------------------

type pageSig struct {
	Key   string `json:"key"`
	Limit int    `json:"limit"`
	N     int    `json:"n"`
	First string `json:"first,omitempty"`
	Last  string `json:"last,omitempty"`
	Err   bool   `json:"err,omitempty"`
}

// loopProven is the panic value used to abort a load whose page sequence repeats.
type loopProven struct {
	Period int       `json:"period"`
	Pages  []pageSig `json:"pages"`
}

// budgetExceeded aborts a load that asked for far more pages than any terminating scan needs
// without a proven repetition (=> inconclusive, never a verdict).
type budgetExceeded struct{ Pages int }

// faultPlan places read faults inside the next load (consumed by begin).
type faultPlan struct {
	FailRangeAt int // 1-based ordinal of the LoadRange that fails once (0 = none)
	FailAfterOK int // > 0: once this many LoadRange replies succeeded, every further LoadRange fails
	FailLoadAt  int // 1-based ordinal of the point read (Load) that fails once
}

var errInjectedRead = errors.New("c17: injected storage read failure")

type pageWatch struct {
	inner              kv.Base
	next               *faultPlan // plan for the next load
	plan               faultPlan
	okRanges, injected int

	mu        sync.Mutex
	window    []pageSig // pages since the last successful write
	trace     []pageSig // first pages of the running load (witness)
	pages     int
	budget    int
	minLimit  int
	limitErrs int
	loads     int
	removed   []string
	saves     int
}

func newPageWatch(inner kv.Base) *pageWatch { return &pageWatch{inner: inner} }

// begin resets the observation for one load; budget = max pages tolerated.
func (p *pageWatch) begin(budget int) {
	p.mu.Lock()
	p.window, p.trace, p.pages, p.budget, p.minLimit, p.limitErrs, p.loads, p.removed, p.saves = nil, nil, 0, budget, 0, 0, 0, nil, 0
	p.plan, p.okRanges, p.injected = faultPlan{}, 0, 0
	if p.next != nil {
		p.plan, p.next = *p.next, nil
	}
	p.mu.Unlock()
}

func (p *pageWatch) Load(key string) (string, error) {
	p.mu.Lock()
	p.loads++
	fail := p.plan.FailLoadAt > 0 && p.loads == p.plan.FailLoadAt
	if fail {
		p.injected++
	}
	p.mu.Unlock()
	if fail {
		return "", errInjectedRead
	}
	return p.inner.Load(key)
}

func (p *pageWatch) LoadRange(key, endKey string, limit int) ([]string, []string, error) {
	p.mu.Lock()
	fail := (p.plan.FailRangeAt > 0 && p.pages+1 == p.plan.FailRangeAt) || (p.plan.FailAfterOK > 0 && p.okRanges >= p.plan.FailAfterOK)
	if fail {
		p.injected++
	}
	p.mu.Unlock()
	var ks, vs []string
	var err error
	if fail {
		err = errInjectedRead
	} else {
		ks, vs, err = p.inner.LoadRange(key, endKey, limit)
	}
	sig := pageSig{Key: key, Limit: limit, N: len(ks), Err: err != nil}
	if len(ks) > 0 {
		sig.First, sig.Last = ks[0], ks[len(ks)-1]
	}
	p.mu.Lock()
	p.pages++
	if err != nil {
		p.limitErrs++
	} else {
		p.okRanges++
	}
	if p.minLimit == 0 || limit < p.minLimit {
		p.minLimit = limit
	}
	if len(p.trace) < 64 {
		p.trace = append(p.trace, sig)
	}
	p.window = append(p.window, sig)
	w := p.window
	n := len(w)
	var proven *loopProven
	for per := 1; 3*per <= n; per++ {
		if w[n-1] != w[n-1-per] {
			continue
		}
		same := true
		for i := 0; i < per && same; i++ {
			a := w[n-1-i]
			if a != w[n-1-i-per] || a != w[n-1-i-2*per] {
				same = false
			}
		}
		if same {
			pg := append([]pageSig(nil), w[n-3*per:]...)
			if len(pg) > 30 {
				pg = pg[:30]
			}
			proven = &loopProven{Period: per, Pages: pg}
			break
		}
	}
	over := p.budget > 0 && p.pages > p.budget
	pages := p.pages
	p.mu.Unlock()
	if proven != nil {
		panic(*proven)
	}
	if over {
		panic(budgetExceeded{pages})
	}
	return ks, vs, err
}

func (p *pageWatch) Save(key, value string) error {
	err := p.inner.Save(key, value)
	if err == nil {
		p.mu.Lock()
		p.window = nil
		p.saves++
		p.mu.Unlock()
	}
	return err
}

func (p *pageWatch) Remove(key string) error {
	err := p.inner.Remove(key)
	if err == nil {
		p.mu.Lock()
		p.window = nil
		p.removed = append(p.removed, key)
		p.mu.Unlock()
	}
	return err
}

func (p *pageWatch) injectedFaults() int { p.mu.Lock(); defer p.mu.Unlock(); return p.injected }

func (p *pageWatch) snapshot() (trace []pageSig, pages, minLimit, limitErrs int, removed []string) {
	p.mu.Lock()
	defer p.mu.Unlock()
	return append([]pageSig(nil), p.trace...), p.pages, p.minLimit, p.limitErrs, append([]string(nil), p.removed...)
}

// ---------------------------------------------------------------------------------------------
// backends
// ---------------------------------------------------------------------------------------------

type backend struct {
	name string // mem | leveldb | regionstorage | etcd
	st   *core.Storage
	pw   *pageWatch
	kvx  *kvx.KV

	// leveldb used as a plain kv.Base
	ldb *kv.LeveldbKV
	// region storage (LevelDB + batching) wired into Storage
	rs     *core.RegionStorage
	rsDir  string
	cancel context.CancelFunc

	etcd     *etcdx.Etcd
	etcdRoot string
	cli      *clientv3.Client // etcd-own only

	dirs []string
}

var (
	sharedEtcd   *etcdx.Etcd
	etcdCaseNo   int
	etcdStartErr error
)

func getEtcd() (*etcdx.Etcd, error) {
	if sharedEtcd == nil && etcdStartErr == nil {
		sharedEtcd, etcdStartErr = etcdx.Start()
	}
	return sharedEtcd, etcdStartErr
}

func closeEtcd() {
	if sharedEtcd != nil {
		sharedEtcd.Close()
		sharedEtcd = nil
	}
}

func tempDir(tag string) (string, error) { return ioutil.TempDir("", "c17-"+tag+"-") }

func newBackend(name string) (*backend, error) {
	b := &backend{name: name}
	switch name {
	case "mem":
		b.kvx = kvx.New(kv.NewMemoryKV())
	case "leveldb":
		dir, err := tempDir("ldb")
		if err != nil {
			return nil, err
		}
		b.dirs = append(b.dirs, dir)
		db, err := kv.NewLeveldbKV(dir)
		if err != nil {
			return nil, err
		}
		b.ldb = db
		b.kvx = kvx.New(db)
	case "regionstorage":
		dir, err := tempDir("rs")
		if err != nil {
			return nil, err
		}
		b.dirs = append(b.dirs, dir)
		b.rsDir = dir
		b.kvx = kvx.New(kv.NewMemoryKV())
	case "etcd-own":
		// an etcd kv over a client of its own, so that the client (and its context) can be closed mid-load
		e, err := getEtcd()
		if err != nil {
			return nil, err
		}
		etcdCaseNo++
		b.etcd = e
		b.etcdRoot = fmt.Sprintf("/c17/%d", etcdCaseNo)
		if err := b.reconnect(); err != nil {
			return nil, err
		}
		return b, nil
	case "etcd":
		e, err := getEtcd()
		if err != nil {
			return nil, err
		}
		etcdCaseNo++
		b.etcd = e
		b.etcdRoot = fmt.Sprintf("/c17/%d", etcdCaseNo)
		b.kvx = kvx.New(kv.NewEtcdKVBase(e.Observer, b.etcdRoot))
	default:
		return nil, fmt.Errorf("unknown backend %q", name)
	}
	b.kvx.SetLogging(false)
	b.pw = newPageWatch(b.kvx)
	if name == "regionstorage" {
		if err := b.openRS(b.rsDir); err != nil {
			return nil, err
		}
	} else {
		b.st = core.NewStorage(b.pw)
	}
	return b, nil
}

// reconnect gives the etcd-own backend a fresh client, kv wrapper and Storage on the same root.
func (b *backend) reconnect() error {
	cli, err := clientv3.New(clientv3.Config{Endpoints: []string{b.etcd.Endpoint}, DialTimeout: 10 * time.Second})
	if err != nil {
		return err
	}
	b.cli = cli
	b.kvx = kvx.New(kv.NewEtcdKVBase(cli, b.etcdRoot))
	b.kvx.SetLogging(false)
	b.pw = newPageWatch(b.kvx)
	b.st = core.NewStorage(b.pw)
	return nil
}

// reopenLDB opens the LevelDB directory of the plain-kv backend again with fresh objects.
func (b *backend) reopenLDB() error {
	db, err := kv.NewLeveldbKV(b.dirs[0])
	if err != nil {
		return err
	}
	b.ldb = db
	b.kvx = kvx.New(db)
	b.kvx.SetLogging(false)
	b.pw = newPageWatch(b.kvx)
	b.st = core.NewStorage(b.pw)
	return nil
}

// openRS (re)creates the region storage on dir and a Storage switched to it.
func (b *backend) openRS(dir string) error {
	ctx, cancel := context.WithCancel(context.Background())
	rs, err := core.NewRegionStorage(ctx, dir, nil)
	if err != nil {
		cancel()
		return err
	}
	b.rs, b.cancel, b.rsDir = rs, cancel, dir
	b.st = core.NewStorage(b.pw, core.WithRegionStorage(rs))
	b.st.SwitchToRegionStorage()
	return nil
}

// closeReopenRS closes the storage (Close returns => everything must be durable) and opens the same
// directory again with fresh objects.
func (b *backend) closeReopenRS() error {
	if err := b.st.Close(); err != nil {
		return fmt.Errorf("close: %v", err)
	}
	b.cancel()
	b.rs = nil
	return b.openRS(b.rsDir)
}

func (b *backend) close() {
	if b.rs != nil {
		b.st.Close()
		b.cancel()
		b.rs = nil
	}
	if b.ldb != nil {
		b.ldb.Close()
		b.ldb = nil
	}
	if b.cli != nil {
		b.cli.Close()
		b.cli = nil
	}
	if b.etcd != nil {
		ctx, c := context.WithTimeout(context.Background(), 30*time.Second)
		b.etcd.Observer.Delete(ctx, b.etcdRoot+"/", clientv3.WithPrefix())
		c()
	}
	for _, d := range b.dirs {
		os.RemoveAll(d)
	}
}

func idOfKey(key, prefix string) (uint64, bool) {
	if !strings.HasPrefix(key, prefix) {
		return 0, false
	}
	id, err := strconv.ParseUint(key[len(prefix):], 10, 64)
	return id, err == nil
}

// rawScan reads every key/value with the prefix straight from the medium, not through the paging
// code under test: LevelDB by a plain iterator over the whole database, etcd by one prefix Get of
// an independent client call, the memory kv by a single unlimited range over the whole key space.
func (b *backend) rawScan(prefix string, regionSide bool) (map[string]string, error) {
	out := map[string]string{}
	switch {
	case regionSide && b.rs != nil:
		it := b.rs.NewIterator(nil, nil)
		for it.Next() {
			if k := string(it.Key()); strings.HasPrefix(k, prefix) {
				out[k] = string(it.Value())
			}
		}
		it.Release()
		return out, it.Error()
	case b.ldb != nil:
		it := b.ldb.NewIterator(nil, nil)
		for it.Next() {
			if k := string(it.Key()); strings.HasPrefix(k, prefix) {
				out[k] = string(it.Value())
			}
		}
		it.Release()
		return out, it.Error()
	case b.etcd != nil:
		ctx, c := context.WithTimeout(context.Background(), 60*time.Second)
		defer c()
		full := b.etcdRoot + "/" + prefix
		resp, err := b.etcd.Observer.Get(ctx, full, clientv3.WithPrefix())
		if err != nil {
			return nil, err
		}
		for _, item := range resp.Kvs {
			out[strings.TrimPrefix(string(item.Key), b.etcdRoot+"/")] = string(item.Value)
		}
		return out, nil
	default:
		ks, vs, err := b.kvx.Inner.LoadRange("", "\xff\xff\xff\xff", 0)
		if err != nil {
			return nil, err
		}
		for i, k := range ks {
			if strings.HasPrefix(k, prefix) {
				out[k] = vs[i]
			}
		}
		return out, nil
	}
}

// rawRegions returns the regions found in storage keyed by the id in the key.
func (b *backend) rawRegions() (map[uint64]*metapb.Region, error) {
	m, err := b.rawScan(regionPrefix, true)
	if err != nil {
		return nil, err
	}
	out := map[uint64]*metapb.Region{}
	for k, v := range m {
		id, ok := idOfKey(k, regionPrefix)
		if !ok {
			return nil, fmt.Errorf("unparsable region key %q", k)
		}
		r := &metapb.Region{}
		if err := r.Unmarshal([]byte(v)); err != nil {
			return nil, fmt.Errorf("region key %q: %v", k, err)
		}
		out[id] = r
	}
	return out, nil
}

// copyDir copies the regular files of a (quiescent) LevelDB directory.
func copyDir(src, dst string) error {
	if err := os.MkdirAll(dst, 0o755); err != nil {
		return err
	}
	ents, err := ioutil.ReadDir(src)
	if err != nil {
		return err
	}
	for _, e := range ents {
		if !e.Mode().IsRegular() {
			continue
		}
		in, err := os.Open(filepath.Join(src, e.Name()))
		if err != nil {
			return err
		}
		out, err := os.Create(filepath.Join(dst, e.Name()))
		if err != nil {
			in.Close()
			return err
		}
		_, err = io.Copy(out, in)
		in.Close()
		if cerr := out.Close(); err == nil {
			err = cerr
		}
		if err != nil {
			return err
		}
	}
	return nil
}
