package main

import (
	"fmt"
	"math"
	"math/rand"
	"sort"

	"github.com/pingcap/kvproto/pkg/metapb"
)

// Spec describes one case completely (together with the code of this check): replaying a Spec
// regenerates the same ids, contents, history and limits.
type Spec struct {
	Kind    string `json:"kind"`    // stores | regions | prune | crash | concurrent
	Backend string `json:"backend"` // mem | leveldb | regionstorage | etcd
	IDGen   string `json:"idgen"`
	N       int    `json:"n"`               // live items after the history (crash: regions saved)
	Hist    string `json:"hist,omitempty"`  // plain | overwrite | delete | mixed | unflushed-delete
	Keys    string `json:"keys,omitempty"`  // small | large | heavytail
	W       int    `json:"w,omitempty"`     // page size forced by the emulated response limit (0 = no limit, <0 = infeasible limit)
	End     string `json:"end,omitempty"`   // regionstorage: flush | close
	What    string `json:"what,omitempty"`  // interleave / cycles: stores | regions
	Fault   string `json:"fault,omitempty"` // read fault placed inside the load: transient-range | persistent-range | transient-load
	Seed    int64  `json:"seed"`
}

func (s Spec) String() string {
	return fmt.Sprintf("%s/%s/%s/n=%d/%s/%s/w=%d/%s/%s/%s/seed=%d", s.Kind, s.Backend, s.IDGen, s.N, s.Hist, s.Keys, s.W, s.End, s.What, s.Fault, s.Seed)
}

var idGens = []string{"dense1", "dense-offset", "sparse", "near-2^63", "pow10", "dec-prefix", "top-no-max", "top-with-max", "top-sparse", "mixed"}

// idGensNoMax never produce 2^64-1.
var idGensNoMax = []string{"dense1", "dense-offset", "sparse-no-max", "near-2^63", "pow10", "dec-prefix", "top-no-max", "mixed-no-max"}

// idGensRoomy leave the id right after the largest one free and stay clear of the top of the range.
var idGensRoomy = []string{"dense1", "dense-offset", "sparse-no-max", "near-2^63", "pow10", "dec-prefix"}

// genIDs returns n distinct ids >= 1 (id 0 is never allocated by pd and is kept out).
func genIDs(rng *rand.Rand, gen string, n int) []uint64 {
	seen := map[uint64]bool{}
	var out []uint64
	add := func(id uint64) bool {
		if id == 0 || seen[id] || len(out) >= n {
			return false
		}
		seen[id] = true
		out = append(out, id)
		return true
	}
	fillSparse := func(allowMax bool) {
		for len(out) < n {
			id := rng.Uint64()
			if id == math.MaxUint64 && !allowMax {
				continue
			}
			add(id)
		}
	}
	switch gen {
	case "dense1":
		for i := 1; i <= n; i++ {
			add(uint64(i))
		}
	case "dense-offset":
		base := uint64(rng.Int63n(1<<40)) + 1
		for i := 0; i < n; i++ {
			add(base + uint64(i))
		}
	case "sparse":
		fillSparse(true)
	case "sparse-no-max":
		fillSparse(false)
	case "near-2^63":
		c := uint64(1) << 63
		if rng.Intn(2) == 0 {
			// contiguous block crossing 2^63
			start := c - uint64(rng.Intn(n+1))
			for i := 0; i < n; i++ {
				add(start + uint64(i))
			}
		} else {
			for len(out) < n {
				d := uint64(rng.Int63n(1 << 20))
				if rng.Intn(2) == 0 {
					add(c + d)
				} else {
					add(c - d - 1)
				}
			}
		}
	case "pow10":
		// ids around every change of the number of decimal digits (key order must equal id order)
		p := uint64(1)
		var cand []uint64
		for k := 1; k <= 19; k++ {
			p *= 10
			cand = append(cand, p-1, p, p+1)
		}
		rng.Shuffle(len(cand), func(i, j int) { cand[i], cand[j] = cand[j], cand[i] })
		for _, c := range cand {
			add(c)
		}
		fillSparse(false)
	case "dec-prefix":
		// ids whose decimal spellings are prefixes of each other (7, 71, 712, ...): only the zero padding
		// of the keys keeps them apart and in id order
		for len(out) < n {
			v := uint64(0)
			for d := 0; d < 19 && len(out) < n; d++ {
				dg := uint64(rng.Intn(10))
				if d == 0 {
					dg = uint64(1 + rng.Intn(9))
				}
				v = v*10 + dg
				add(v)
				if d < 18 && rng.Intn(3) == 0 {
					add(v * 10) // ...0: the same spelling plus a zero
				}
			}
		}
	case "top-no-max":
		for i := 0; i < n; i++ {
			add(math.MaxUint64 - 1 - uint64(i))
		}
	case "top-with-max":
		for i := 0; i < n; i++ {
			add(math.MaxUint64 - uint64(i))
		}
	case "top-sparse":
		if n > 0 && rng.Intn(2) == 0 {
			add(math.MaxUint64)
		}
		for len(out) < n {
			add(math.MaxUint64 - uint64(rng.Intn(1<<16)))
		}
	case "mixed", "mixed-no-max":
		top := uint64(math.MaxUint64)
		if gen == "mixed-no-max" {
			top--
		}
		for i := 0; len(out) < n; i++ {
			switch i % 3 {
			case 0:
				add(uint64(i/3 + 1))
			case 1:
				id := rng.Uint64()
				if id < top {
					add(id)
				}
			default:
				add(top - uint64(i/3))
			}
		}
	default:
		panic("unknown id generator " + gen)
	}
	rng.Shuffle(len(out), func(i, j int) { out[i], out[j] = out[j], out[i] })
	return out
}

func sortedIDs(ids []uint64) []uint64 {
	out := append([]uint64(nil), ids...)
	sort.Slice(out, func(i, j int) bool { return out[i] < out[j] })
	return out
}

func randBytes(rng *rand.Rand, n int) []byte {
	b := make([]byte, n)
	rng.Read(b)
	return b
}

var weightChoices = []float64{0, 0.5, 1, 2, 1e-9, 123456.789, 0.1 + 0.2, 3.0000000000000004, 1e15, 7}

func genWeight(rng *rand.Rand) float64 {
	if rng.Intn(3) == 0 {
		return rng.Float64() * 100
	}
	return weightChoices[rng.Intn(len(weightChoices))]
}

// genStore makes a store record; ver makes overwrites differ from the previous content.
func genStore(rng *rand.Rand, id uint64, ver int, big bool) *metapb.Store {
	s := &metapb.Store{
		Id:      id,
		Address: fmt.Sprintf("tikv-%d-v%d:%d", id%1000, ver, 20160+rng.Intn(100)),
		Version: fmt.Sprintf("5.%d.%d", rng.Intn(3), ver),
		State:   metapb.StoreState(rng.Intn(3)),
	}
	for i, nl := 0, rng.Intn(4); i < nl; i++ {
		s.Labels = append(s.Labels, &metapb.StoreLabel{Key: []string{"zone", "rack", "host", "engine"}[i], Value: fmt.Sprintf("v%d", rng.Intn(5))})
	}
	if big {
		s.Labels = append(s.Labels, &metapb.StoreLabel{Key: "blob", Value: string(randBytes(rng, 1+rng.Intn(8192)))})
	}
	if rng.Intn(4) == 0 {
		s.StatusAddress = fmt.Sprintf("tikv-%d:20180", id%1000)
		s.StartTimestamp = rng.Int63()
	}
	return s
}

// edgeKeys: region keys with 0x00 / 0xff / '/' / ',' bytes, path-like spellings, keys that are prefixes of
// each other, a key that looks like a storage path and a TiKV-encoded table key.
var edgeKeys = []string{"\x00", "\x00\x00", "\xff", "\xff\xff", "/", "a", "a/", "a/b", "a\x00", "a\x00\x00", "a\xff", "aa", "a,b", ",",
	"..", "../", "raft/r/", "raft/r/00000000000000000001", "t\x80\x00\x00\x00\x00\x00\x00\xff", "t\x80\x00\x00\x00\x00\x00\x00\xff\x00", "z", "z\xff\xff\xff"}

var edgeWeights = []float64{math.NaN(), -1, math.Copysign(0, -1), math.Inf(1), math.Inf(-1), math.MaxFloat64, -math.MaxFloat64,
	math.SmallestNonzeroFloat64, 1e-320, 1e22, 1e21, 123456789012345680000, 0.1, 1}

// mutateStore returns a copy of s that differs from it in exactly one field (which one: by k).
func mutateStore(rng *rand.Rand, s *metapb.Store, k int) *metapb.Store {
	bs, _ := s.Marshal()
	c := &metapb.Store{}
	c.Unmarshal(bs)
	switch k % 12 {
	case 0:
		c.Address += "x"
	case 1:
		c.State = metapb.StoreState((int(c.State) + 1) % 3)
	case 2:
		c.Version += ".1"
	case 3:
		c.StatusAddress += "s"
	case 4:
		c.GitHash += "g"
	case 5:
		c.StartTimestamp++
	case 6:
		c.DeployPath += "/d"
	case 7:
		c.LastHeartbeat++
	case 8:
		c.PeerAddress += "p"
	case 9:
		c.PhysicallyDestroyed = !c.PhysicallyDestroyed
	case 10: // one label value, or the letter case of one label key
		if len(c.Labels) == 0 {
			c.Labels = append(c.Labels, &metapb.StoreLabel{Key: "zone", Value: "z1"})
		} else if rng.Intn(2) == 0 {
			c.Labels[0].Value += "'"
		} else {
			c.Labels[0].Key = swapCase(c.Labels[0].Key)
		}
	default: // a label more (same key in another case, empty value) or one less
		if len(c.Labels) > 0 && rng.Intn(2) == 0 {
			c.Labels = c.Labels[:len(c.Labels)-1]
		} else {
			c.Labels = append(c.Labels, &metapb.StoreLabel{Key: "Zone", Value: ""})
		}
	}
	return c
}

func swapCase(s string) string {
	b := []byte(s)
	for i, ch := range b {
		if ch >= 'a' && ch <= 'z' {
			b[i] = ch - 32
			return string(b)
		}
		if ch >= 'A' && ch <= 'Z' {
			b[i] = ch + 32
			return string(b)
		}
	}
	return s + "X"
}

// mutateRegion returns a copy of r that differs from it in exactly one field.
func mutateRegion(rng *rand.Rand, r *metapb.Region, k int) *metapb.Region {
	bs, _ := r.Marshal()
	c := &metapb.Region{}
	c.Unmarshal(bs)
	if c.RegionEpoch == nil {
		c.RegionEpoch = &metapb.RegionEpoch{}
	}
	switch k % 9 {
	case 0:
		c.StartKey = append(c.StartKey, 0x00)
	case 1:
		c.EndKey = append(c.EndKey, 0xff)
	case 2:
		c.RegionEpoch.ConfVer++
	case 3:
		c.RegionEpoch.Version++
	case 4:
		if len(c.Peers) > 0 {
			c.Peers[0].Id++
		} else {
			c.Peers = append(c.Peers, &metapb.Peer{Id: 1, StoreId: 1})
		}
	case 5:
		if len(c.Peers) > 0 {
			c.Peers[len(c.Peers)-1].StoreId++
		} else {
			c.Peers = append(c.Peers, &metapb.Peer{Id: 2, StoreId: 2})
		}
	case 6:
		if len(c.Peers) > 0 {
			c.Peers[0].Role = metapb.PeerRole((int(c.Peers[0].Role) + 1) % 4)
		} else {
			c.StartKey = []byte{}
		}
	case 7:
		c.Peers = append(c.Peers, &metapb.Peer{Id: rng.Uint64()>>1 + 1, StoreId: 9})
	default:
		if len(c.Peers) > 1 {
			c.Peers = c.Peers[:len(c.Peers)-1]
		} else {
			c.EndKey = []byte{}
		}
	}
	return c
}

func keyLen(rng *rand.Rand, class string, pos, total int) int {
	switch class {
	case "large":
		if rng.Intn(3) == 0 {
			return 8192
		}
		return 1 + rng.Intn(8192)
	case "heavytail":
		// light at the beginning of the id order, heavy at the end: the first pages fit, later ones do not
		if pos*3 >= total*2 {
			return 2048 + rng.Intn(6145)
		}
		return 1 + rng.Intn(24)
	default:
		return 1 + rng.Intn(24)
	}
}

// genRegion makes a region record for the exactly-once cases (ranges are arbitrary there).
func genRegion(rng *rand.Rand, id uint64, ver int, class string, pos, total int) *metapb.Region {
	sk, ek := randBytes(rng, keyLen(rng, class, pos, total)), randBytes(rng, keyLen(rng, class, pos, total))
	if class == "edgy" {
		sk, ek = []byte(edgeKeys[rng.Intn(len(edgeKeys))]), []byte(edgeKeys[rng.Intn(len(edgeKeys))])
		if rng.Intn(6) == 0 {
			sk = []byte{}
		}
		if rng.Intn(6) == 0 {
			ek = []byte{}
		}
	}
	r := &metapb.Region{
		Id:          id,
		StartKey:    sk,
		EndKey:      ek,
		RegionEpoch: &metapb.RegionEpoch{ConfVer: uint64(1 + rng.Intn(5)), Version: uint64(ver + 1)},
	}
	for i, np := 0, 1+rng.Intn(3); i < np; i++ {
		r.Peers = append(r.Peers, &metapb.Peer{Id: rng.Uint64()>>1 + 1, StoreId: uint64(1 + i), Role: metapb.PeerRole(rng.Intn(2))})
	}
	return r
}

// genWorld makes the region set of a pruning case: a partition of the whole key space ("current"
// regions) plus leftovers that overlap it (parents of splits, children of merges, shifted ranges,
// same-range twins) with older, equal or newer versions. Returns exactly n regions with the ids.
func genWorld(rng *rand.Rand, ids []uint64, class string) []*metapb.Region {
	n := len(ids)
	if n == 0 {
		return nil
	}
	cur := n - n/3 // about a third are leftovers
	if cur < 1 {
		cur = 1
	}
	// cur-1 distinct split keys
	keys := map[string]bool{}
	var splits [][]byte
	if class == "edgy" {
		// split keys that are prefixes / successors of each other and contain 0x00, 0xff, '/' and ','
		var cand []string
		for _, e := range edgeKeys {
			cand = append(cand, e, e+"\x00", e+"\xff", e+"/")
		}
		rng.Shuffle(len(cand), func(i, j int) { cand[i], cand[j] = cand[j], cand[i] })
		for _, c := range cand {
			if len(splits) < cur-1 && !keys[c] {
				keys[c] = true
				splits = append(splits, []byte(c))
			}
		}
	}
	for len(splits) < cur-1 {
		l := 2 + rng.Intn(6)
		if class == "large" && rng.Intn(4) == 0 {
			l = 1024 + rng.Intn(7169)
		}
		k := randBytes(rng, l)
		if len(k) == 0 || keys[string(k)] {
			continue
		}
		keys[string(k)] = true
		splits = append(splits, k)
	}
	sort.Slice(splits, func(i, j int) bool { return string(splits[i]) < string(splits[j]) })
	bound := func(i int) []byte { // i in [0, cur]
		if i <= 0 || i >= cur {
			return []byte{}
		}
		return splits[i-1]
	}
	peers := func() []*metapb.Peer {
		var ps []*metapb.Peer
		for i, np := 0, 1+rng.Intn(3); i < np; i++ {
			ps = append(ps, &metapb.Peer{Id: rng.Uint64()>>1 + 1, StoreId: uint64(1 + i)})
		}
		return ps
	}
	var out []*metapb.Region
	vers := make([]uint64, cur)
	for i := 0; i < cur; i++ {
		vers[i] = uint64(5 + rng.Intn(6))
		out = append(out, &metapb.Region{Id: ids[i], StartKey: bound(i), EndKey: bound(i + 1),
			RegionEpoch: &metapb.RegionEpoch{ConfVer: uint64(1 + rng.Intn(3)), Version: vers[i]}, Peers: peers()})
	}
	pickVer := func(lo, hi int) uint64 { // relative to the current regions lo..hi-1
		min, max := vers[lo], vers[lo]
		for i := lo; i < hi; i++ {
			if vers[i] < min {
				min = vers[i]
			}
			if vers[i] > max {
				max = vers[i]
			}
		}
		switch rng.Intn(4) {
		case 0:
			return max + 1 + uint64(rng.Intn(2)) // newer: displaces the current ones
		case 1:
			return min // equal to the oldest it overlaps
		default:
			if min <= 1 {
				return 1
			}
			return min - 1 - uint64(rng.Intn(int(min-1))) // older: stale
		}
	}
	for k := cur; k < n; k++ {
		lo := rng.Intn(cur)
		var start, end []byte
		hi := lo + 1
		switch rng.Intn(4) {
		case 0: // parent spanning several current regions
			hi = lo + 1 + rng.Intn(4)
			if hi > cur {
				hi = cur
			}
			start, end = bound(lo), bound(hi)
		case 1: // child: a strict sub-range of one current region
			start = append(append([]byte{}, bound(lo)...), 0x01)
			end = append(append([]byte{}, bound(lo)...), 0x02)
			if e := bound(lo + 1); len(e) > 0 && string(end) >= string(e) {
				start, end = bound(lo), bound(lo+1)
			}
		case 2: // shifted: from inside one region to inside/at the end of the next
			start = append(append([]byte{}, bound(lo)...), 0x01)
			hi = lo + 2
			if hi > cur {
				hi = cur
			}
			end = bound(hi)
			if e := bound(lo + 1); len(e) > 0 && string(start) >= string(e) {
				start = bound(lo)
			}
		default: // twin: same range, other id
			start, end = bound(lo), bound(lo+1)
		}
		out = append(out, &metapb.Region{Id: ids[k], StartKey: start, EndKey: end,
			RegionEpoch: &metapb.RegionEpoch{ConfVer: uint64(1 + rng.Intn(3)), Version: pickVer(lo, hi)}, Peers: peers()})
	}
	return out
}
