// C01 — Timestamps are unique and strictly increasing in real-time order.
//
// Level A: component-level members (real member.Member + tso.AllocatorManager + Global allocator)
// on one embedded etcd (failpoint-enabled build: wall-clock offsets +1 h at sync / update, -1 h),
// epochs of concurrent requesters with arbitrary counts while the window updater, user resets,
// allocator re-initialisation, hand-overs, crashes/restarts and natural lease expiry happen.
// Level B: a real pd server, the real gRPC Tso stream with arbitrary counts and the real pd client.
// Every response is recorded with call/return ticks of one logical clock and judged offline:
// 18-bit field check, pairwise disjointness of the owned ranges, real-time order.
package main

import (
	"context"
	"fmt"
	"math/rand"
	"strings"
	"sync"
	"sync/atomic"
	"time"

	"github.com/pingcap/kvproto/pkg/pdpb"
	pd "github.com/tikv/pd/client"
	"github.com/tikv/pd/pkg/tsoutil"
	"github.com/tikv/pd/server/tso"
	"google.golang.org/grpc"
	"verif/harness/lib/etcdx"
	"verif/harness/lib/ev"
	"verif/harness/lib/hist"
	"verif/harness/lib/srv"
	"verif/harness/lib/tsochk"
	"verif/harness/lib/tsow"
)

var counts = []uint32{1, 1, 2, 7, 1000, 1 << 17, 1<<18 - 1, 1 << 18, 1 << 20, 0}

// pickCount: mostly small counts, sometimes thousands, rarely counts around the 18-bit limit
// (each oversized request inflates the logical counter until the next physical advance).
func pickCount(lr *rand.Rand, serverOK bool) uint32 {
	switch k := lr.Intn(100); {
	case k < 78:
		return []uint32{1, 1, 1, 2, 7, 10, 100}[lr.Intn(7)]
	case k < 96:
		return []uint32{1000, 5000, 1 << 15}[lr.Intn(3)]
	default:
		if serverOK {
			return []uint32{1 << 17, 1<<18 - 1, 1 << 16}[lr.Intn(3)]
		}
		return []uint32{1 << 17, 1<<18 - 1, 1 << 18, 1 << 20, 0}[lr.Intn(5)]
	}
}

type worldRun struct {
	r       *ev.Run
	w       *tsow.World
	rng     *rand.Rand
	serving atomic.Value // *tsow.Member
	events  []string
	lost    map[int]int64 // member-generation id -> crash tick: responses returned later are lost
	fpLive  bool
	mu      sync.Mutex
}

func (x *worldRun) note(format string, a ...interface{}) {
	x.mu.Lock()
	x.events = append(x.events, fmt.Sprintf("t%d ", hist.Now())+fmt.Sprintf(format, a...))
	x.mu.Unlock()
}

func (x *worldRun) cur() *tsow.Member { return x.serving.Load().(*tsow.Member) }

func (x *worldRun) initServing(m *tsow.Member, clock string) bool {
	tsow.SetClock(clock)
	var err error
	for i := 0; i < 3; i++ {
		if err = m.Alloc.Initialize(0); err == nil {
			break
		}
	}
	tsow.SetClock(tsow.ClockNormal)
	if err != nil {
		x.note("initialize(m%d) failed: %v", m.Idx, err)
		return false
	}
	x.serving.Store(m)
	x.note("m%d.%d serving (sync clock %s)", m.Idx, m.Gen, clock)
	return true
}

func (x *worldRun) clocks() []string {
	if !x.fpLive {
		return []string{tsow.ClockNormal}
	}
	return []string{tsow.ClockNormal, tsow.ClockNormal, tsow.ClockFastSync, tsow.ClockFastUpdate, tsow.ClockSlow}
}

// epoch runs requesters + updater for a while and fires one event in the middle.
func (x *worldRun) epoch(ep int) string {
	rng := x.rng
	w := x.w
	stop := make(chan struct{})
	var wg sync.WaitGroup
	nreq := 8 + rng.Intn(25)
	seeds := make([]int64, nreq)
	for i := range seeds {
		seeds[i] = rng.Int63()
	}
	for g := 0; g < nreq; g++ {
		wg.Add(1)
		go func(g int) {
			defer wg.Done()
			lr := rand.New(rand.NewSource(seeds[g]))
			for {
				select {
				case <-stop:
					return
				default:
				}
				m := x.cur()
				if lr.Intn(12) == 0 { // sometimes ask a member that is not serving
					m = w.Members[lr.Intn(len(w.Members))]
				}
				_, err := w.TSO(g, m, pickCount(lr, false), ep)
				if err != nil {
					time.Sleep(200 * time.Microsecond)
				}
			}
		}(g)
	}
	updIv := []time.Duration{time.Millisecond, 5 * time.Millisecond, 50 * time.Millisecond, 0}[rng.Intn(4)]
	updClock := x.clocks()[rng.Intn(len(x.clocks()))]
	if updIv > 0 {
		wg.Add(1)
		go func() {
			defer wg.Done()
			tsow.SetClock(updClock)
			for {
				select {
				case <-stop:
					return
				case <-time.After(updIv):
					m := x.cur()
					if m.Alloc.IsInitialize() {
						m.Alloc.UpdateTSO()
					}
				}
			}
		}()
	}
	dur := time.Duration(40+rng.Intn(120)) * time.Millisecond
	time.Sleep(dur / 2)
	evName := x.event()
	time.Sleep(dur / 2)
	close(stop)
	wg.Wait()
	tsow.SetClock(tsow.ClockNormal)
	return fmt.Sprintf("%s/u%s/%s", evName, updIv, updClock)
}

func (x *worldRun) event() string {
	rng := x.rng
	w := x.w
	m := x.cur()
	switch k := rng.Intn(9); k {
	case 0, 1: // user reset
		resp := w.Responses()
		var p, l int64
		for i := len(resp) - 1; i >= 0; i-- {
			if resp[i].Err == "" {
				p, l = resp[i].Physical, resp[i].Logical
				break
			}
		}
		if p == 0 {
			return "none"
		}
		kind := rng.Intn(9)
		tp, tl := p, l
		if kind >= 7 {
			// same physical as the allocator holds right now, logical smaller or equal (must be rejected)
			if ph, lg, _, ok := tso.VerifSnapshot(m.Alloc); ok && !ph.IsZero() {
				tp = ph.UnixNano() / int64(time.Millisecond)
				tl = lg - int64(rng.Intn(3)) - int64(kind-7)
				if tl < 0 {
					tl = 0
				}
			}
		}
		switch kind {
		case 0:
			tp = p - 500
		case 1:
			tl = l + 1
		case 2:
			tp, tl = p+3, 0
		case 3:
			tp, tl = p+2000, 5
		case 4:
			tp, tl = p+int64(time.Hour/time.Millisecond), 0
		case 5:
			tp, tl = p+int64(24*time.Hour/time.Millisecond)-1, 0
		case 6:
			tp, tl = p+int64(24*time.Hour/time.Millisecond)+10, 0
		}
		err := m.Alloc.SetTSO(tsoutil.GenerateTS(tsoutil.GenerateTimestamp(time.Unix(0, tp*int64(time.Millisecond)), uint64(tl))))
		x.note("SetTSO kind %d -> (%d,%d) err=%v", kind, tp, tl, err != nil)
		return fmt.Sprintf("set%d", kind)
	case 2: // allocator reset + re-initialise (same leadership)
		m.Alloc.Reset()
		x.note("m%d allocator reset", m.Idx)
		x.initServing(m, x.clocks()[rng.Intn(len(x.clocks()))])
		return "reinit"
	case 3, 4: // orderly hand-over
		nw := w.Members[(m.Idx+1+rng.Intn(len(w.Members)-1))%len(w.Members)]
		m.Resign()
		x.note("m%d resigned", m.Idx)
		if err := nw.Campaign(true); err != nil {
			x.note("m%d campaign failed: %v", nw.Idx, err)
			nw = m
			if err := nw.Campaign(true); err != nil {
				return "handover-failed"
			}
		}
		x.initServing(nw, x.clocks()[rng.Intn(len(x.clocks()))])
		return "handover"
	case 5: // crash + restart of the serving member (responses of the dead generation are lost)
		id := m.Idx*1000 + m.Gen
		x.mu.Lock()
		x.lost[id] = hist.Tick()
		x.mu.Unlock()
		nm, err := w.Restart(m.Idx)
		if err != nil {
			return "restart-failed"
		}
		x.note("m%d crashed and restarted as generation %d", m.Idx, nm.Gen)
		// any member may win
		cand := w.Members[rng.Intn(len(w.Members))]
		if err := cand.Campaign(true); err != nil {
			cand = nm
			if err := cand.Campaign(true); err != nil {
				return "restart-campaign-failed"
			}
		}
		x.initServing(cand, x.clocks()[rng.Intn(len(x.clocks()))])
		return "crash"
	case 6: // paused updater + logical pressure is provided by the counts; here: burst of updates
		for i := 0; i < 5; i++ {
			m.Alloc.UpdateTSO()
		}
		return "updburst"
	default:
		return "none"
	}
}

func (x *worldRun) expiry() {
	// natural lease expiry: keep-alive stops, the lease (1 s) runs out, another member campaigns
	w := x.w
	m := x.cur()
	m.StopKeep()
	x.note("m%d keep-alive stopped", m.Idx)
	nw := w.Members[(m.Idx+1)%len(w.Members)]
	stop := make(chan struct{})
	var wg sync.WaitGroup
	for g := 0; g < 4; g++ {
		wg.Add(1)
		go func(g int) {
			defer wg.Done()
			for {
				select {
				case <-stop:
					return
				default:
				}
				// ask both: the old one must stop granting once its lease is over, the new one starts above
				w.TSO(100+g, m, 1, -1)
				w.TSO(100+g, nw, 1, -1)
				time.Sleep(500 * time.Microsecond)
			}
		}(g)
	}
	deadline := time.Now().Add(8 * time.Second)
	won := false
	for time.Now().Before(deadline) {
		if err := nw.Campaign(true); err == nil {
			won = true
			break
		}
		time.Sleep(20 * time.Millisecond)
	}
	if won {
		m.Alloc.Reset()
		x.initServing(nw, tsow.ClockNormal)
		time.Sleep(30 * time.Millisecond)
		x.r.Count("natural_lease_expiries", 1)
	} else {
		m.StartKeep()
	}
	close(stop)
	wg.Wait()
}

func levelA(r *ev.Run, e *etcdx.Etcd, rng *rand.Rand, wi int, fpLive bool) {
	saveIv := []time.Duration{50 * time.Millisecond, 3 * time.Second, 5 * time.Millisecond}[rng.Intn(3)]
	w, err := tsow.NewWorld(e, fmt.Sprintf("/c01/w%02d_%04d_", r.Shard, wi), 2+rng.Intn(2), saveIv, 5*time.Millisecond)
	if err != nil {
		r.Inconclusive("world: %v", err)
		return
	}
	w.Lease = 1
	defer w.Close()
	// one world in three lives on a populated root (a realistic number of unrelated keys around the window key)
	if wi%3 == 1 {
		n := 1001 + rng.Intn(1800)
		if err := w.Populate(n); err != nil {
			r.Inconclusive("populate: %v", err)
			return
		}
		r.Count("worlds_on_populated_root", 1)
		r.Count("populated_keys", int64(n))
	}
	x := &worldRun{r: r, w: w, rng: rng, lost: map[int]int64{}, fpLive: fpLive}
	m := w.Members[0]
	if err := m.Campaign(true); err != nil {
		r.Inconclusive("campaign: %v", err)
		return
	}
	if !x.initServing(m, tsow.ClockNormal) {
		r.Inconclusive("initialize failed")
		return
	}
	neps := r.Pick(10, 40)
	shape := ""
	for ep := 0; ep < neps; ep++ {
		es := x.epoch(ep)
		shape += es + ";"
		r.Count("epochs", 1)
		// one epoch = one execution of a (event, updater interval, clock mode) configuration under
		// concurrent requesters; the whole world's history is judged together below
		r.Eval(1)
		r.Distinct(fmt.Sprintf("epoch|%s|members%d|save%s", es, len(w.Members), saveIv))
	}
	if wi%3 == 0 {
		x.expiry()
	}
	x.cur().Resign()
	// offline judgement
	all := w.Responses()
	var kept []tsochk.Resp
	dropped := 0
	for _, o := range all {
		if t, ok := x.lost[o.Member]; ok && o.Ret > t {
			dropped++
			continue
		}
		kept = append(kept, o)
	}
	okN := 0
	for _, o := range kept {
		if o.Err == "" {
			okN++
			if o.Count >= 1<<17 {
				r.Count("large_count_grants", 1)
			}
		}
	}
	r.Count("responses", int64(len(all)))
	r.Count("responses_granted", int64(okN))
	r.Count("responses_lost_in_crash", int64(dropped))
	if p := tsochk.Check(kept); p != nil {
		hs, _ := e.History(w.Root, w.StartRev)
		var wlog []interface{}
		for _, mm := range w.Members {
			for _, rpc := range mm.Cl.Log() {
				if rpc.Method == "Txn" {
					wlog = append(wlog, map[string]interface{}{"member": mm.Idx, "keys": rpc.Keys, "succ": rpc.Succ, "rev": rpc.Rev, "send": rpc.Send, "ack": rpc.Ack, "err": rpc.Err, "val": fmt.Sprintf("%x", rpc.PutVals)})
				}
			}
		}
		r.Violation(p.Kind+":levelA", p.What, map[string]interface{}{"problem": p, "events": x.events, "save_interval": saveIv.String(), "root": w.Root, "etcd_history": hs, "txn_log": wlog})
	}
	r.Eval(1)
	r.Distinct("A|" + shape)
	if wi == 1 {
		var smp []tsochk.Resp
		for _, o := range kept {
			if o.Err == "" && len(smp) < 12 {
				smp = append(smp, o)
			}
		}
		r.Sample(map[string]interface{}{"mode": "levelA", "events": x.events, "first_grants": smp})
	}
}

// ---- level B: real server, gRPC stream, pd client ----

func levelB(r *ev.Run, rng *rand.Rand) {
	cfgs := srv.NewConfigs(1, nil)
	m, err := srv.Start(cfgs[0])
	if err != nil {
		r.Inconclusive("server start: %v", err)
		return
	}
	defer m.Close()
	if srv.WaitLeader([]*srv.Member{m}, 30*time.Second) == nil {
		r.Inconclusive("no leader")
		return
	}
	addr := strings.TrimPrefix(m.Cfg.ClientUrls, "http://")
	conn, err := grpc.Dial(addr, grpc.WithInsecure())
	if err != nil {
		r.Inconclusive("dial: %v", err)
		return
	}
	defer conn.Close()
	var mu sync.Mutex
	var resp []tsochk.Resp
	rec := func(o tsochk.Resp) { mu.Lock(); resp = append(resp, o); mu.Unlock() }
	stop := make(chan struct{})
	var wg sync.WaitGroup
	ctx, cancel := context.WithCancel(context.Background())
	defer cancel()
	for g := 0; g < 6; g++ {
		wg.Add(1)
		go func(g int) {
			defer wg.Done()
			lr := rand.New(rand.NewSource(int64(g) + 77))
			var stream pdpb.PD_TsoClient
			for {
				select {
				case <-stop:
					return
				default:
				}
				if stream == nil {
					s, err := pdpb.NewPDClient(conn).Tso(ctx)
					if err != nil {
						time.Sleep(5 * time.Millisecond)
						continue
					}
					stream = s
				}
				c := pickCount(lr, true)
				call := hist.Tick()
				err := stream.Send(&pdpb.TsoRequest{Header: m.Header(), Count: c, DcLocation: "global"})
				var rp *pdpb.TsoResponse
				if err == nil {
					rp, err = stream.Recv()
				}
				o := tsochk.Resp{Client: g, Count: c, Call: call, Ret: hist.Tick()}
				if err != nil {
					o.Err = err.Error()
					stream = nil
					time.Sleep(2 * time.Millisecond)
				} else {
					ts := rp.GetTimestamp()
					o.Physical, o.Logical, o.Bits = ts.GetPhysical(), ts.GetLogical(), ts.GetSuffixBits()
					if rp.GetCount() != c {
						o.Err = fmt.Sprintf("count mismatch %d", rp.GetCount())
					}
				}
				rec(o)
			}
		}(g)
	}
	cli, cerr := pd.NewClientWithContext(ctx, []string{m.Cfg.ClientUrls}, pd.SecurityOption{})
	if cerr == nil {
		defer cli.Close()
		for g := 0; g < 4; g++ {
			wg.Add(1)
			go func(g int) {
				defer wg.Done()
				for {
					select {
					case <-stop:
						return
					default:
					}
					call := hist.Tick()
					c2, cancel2 := context.WithTimeout(ctx, 3*time.Second)
					p, l, err := cli.GetTS(c2)
					cancel2()
					o := tsochk.Resp{Client: 50 + g, Count: 1, Physical: p, Logical: l, Call: call, Ret: hist.Tick()}
					if err != nil {
						o.Err = err.Error()
						time.Sleep(2 * time.Millisecond)
					}
					rec(o)
				}
			}(g)
		}
	} else {
		r.Count("pd_client_unavailable", 1)
	}
	rounds := r.Pick(4, 14)
	var events []string
	for i := 0; i < rounds; i++ {
		time.Sleep(time.Duration(150+rng.Intn(150)) * time.Millisecond)
		switch rng.Intn(3) {
		case 0:
			m.Srv.GetMember().ResetLeader()
			events = append(events, fmt.Sprintf("t%d resign", hist.Now()))
			r.Count("server_resigns", 1)
			srv.WaitLeader([]*srv.Member{m}, 20*time.Second)
		case 1:
			mu.Lock()
			var p int64
			for k := len(resp) - 1; k >= 0; k-- {
				if resp[k].Err == "" {
					p = resp[k].Physical
					break
				}
			}
			mu.Unlock()
			if p != 0 {
				d := []int64{2000, 60000, -1000, 3}[rng.Intn(4)]
				err := m.Srv.GetHandler().ResetTS(tsoutil.GenerateTS(tsoutil.GenerateTimestamp(time.Unix(0, (p+d)*int64(time.Millisecond)), 0)))
				events = append(events, fmt.Sprintf("t%d ResetTS %+d ms err=%v", hist.Now(), d, err != nil))
				r.Count("server_reset_ts", 1)
			}
		default:
		}
	}
	close(stop)
	wg.Wait()
	cancel()
	okN := 0
	for _, o := range resp {
		if o.Err == "" {
			okN++
		}
	}
	r.Count("server_responses_granted", int64(okN))
	if p := tsochk.Check(resp); p != nil {
		r.Violation(p.Kind+":levelB", p.What, map[string]interface{}{"problem": p, "events": events})
	}
	r.Eval(1)
	r.Distinct(fmt.Sprintf("B|%v", events))
}

// edgePhase: sequential (no updater) reset edge cases on one member; every grant goes through the
// same offline checker, so an accepted reset that moves the time or the counter backwards shows up
// as a real-time order / overlap violation.
func edgePhase(r *ev.Run, e *etcdx.Etcd, rng *rand.Rand) {
	w, err := tsow.NewWorld(e, fmt.Sprintf("/c01/e%02d_", r.Shard), 1, 3*time.Second, time.Millisecond)
	if err != nil {
		r.Inconclusive("world: %v", err)
		return
	}
	defer w.Close()
	m := w.Members[0]
	if m.Campaign(true) != nil || m.Alloc.Initialize(0) != nil {
		r.Inconclusive("edge phase setup failed")
		return
	}
	var log []string
	n := r.Pick(300, 3000)
	for i := 0; i < n; i++ {
		w.TSO(0, m, uint32(1+rng.Intn(20)), 0)
		ph, lg, _, ok := tso.VerifSnapshot(m.Alloc)
		if !ok || ph.IsZero() {
			continue
		}
		pms := ph.UnixNano() / int64(time.Millisecond)
		var tp, tl int64
		switch k := rng.Intn(8); k {
		case 0:
			tp, tl = pms, lg-1-int64(rng.Intn(4))
		case 1:
			tp, tl = pms, lg
		case 2:
			tp, tl = pms, lg+1
		case 3:
			tp, tl = pms-1, lg+100
		case 4:
			tp, tl = pms+1, 0
		case 5:
			tp, tl = pms, 1<<18-1
		case 6:
			tp, tl = pms+1, 1<<18-2
		default:
			tp, tl = pms, lg+int64(rng.Intn(1000))
		}
		if tl < 0 {
			tl = 0
		}
		err := m.Alloc.SetTSO(tsoutil.GenerateTS(tsoutil.GenerateTimestamp(time.Unix(0, tp*int64(time.Millisecond)), uint64(tl))))
		if len(log) < 400 {
			log = append(log, fmt.Sprintf("t%d mem=(%d,%d) SetTSO(%d,%d) accepted=%v", hist.Now(), pms, lg, tp, tl, err == nil))
		}
		r.Count("edge_resets", 1)
		if err == nil {
			r.Count("edge_resets_accepted", 1)
		}
		w.TSO(0, m, 1, 0)
		if rng.Intn(10) == 0 {
			time.Sleep(2 * time.Millisecond)
			m.Alloc.UpdateTSO()
		}
	}
	m.Resign()
	if p := tsochk.Check(w.Responses()); p != nil {
		r.Violation(p.Kind+":reset-edge", p.What, map[string]interface{}{"problem": p, "resets": log})
	}
	r.Eval(1)
	r.Distinct("edge-phase")
}

// resetRacePhase: requesters hammer one allocator (no updater, so the physical part stands still)
// while user resets to "same millisecond, logical slightly above the current one" arrive; with a
// 1 ms save interval every reset also has to extend the stored window, i.e. it spends an etcd round
// trip between validating the target and applying it.
func resetRacePhase(r *ev.Run, e *etcdx.Etcd, rng *rand.Rand) {
	for vi, saveIv := range []time.Duration{time.Millisecond, 3 * time.Second} {
		w, err := tsow.NewWorld(e, fmt.Sprintf("/c01/rr%02d_%d_", r.Shard, vi), 1, saveIv, time.Millisecond)
		if err != nil {
			r.Inconclusive("world: %v", err)
			return
		}
		m := w.Members[0]
		if m.Campaign(true) != nil || m.Alloc.Initialize(0) != nil {
			w.Close()
			r.Inconclusive("reset race setup failed")
			return
		}
		stop := make(chan struct{})
		var wg sync.WaitGroup
		for g := 0; g < 6; g++ {
			wg.Add(1)
			go func(g int) {
				defer wg.Done()
				for {
					select {
					case <-stop:
						return
					default:
					}
					w.TSO(g, m, uint32(1+g), 0)
				}
			}(g)
		}
		resets := r.Pick(1500, 12000)
		if saveIv == time.Millisecond {
			resets = r.Pick(400, 3000)
		}
		accepted := 0
		for i := 0; i < resets; i++ {
			ph, lg, _, ok := tso.VerifSnapshot(m.Alloc)
			if !ok || ph.IsZero() {
				continue
			}
			tl := lg + 1 + int64(rng.Intn(4))
			if tl >= 1<<18-100 { // logical nearly used up: let the time advance once
				time.Sleep(2 * time.Millisecond)
				m.Alloc.UpdateTSO()
				continue
			}
			if m.Alloc.SetTSO(tsoutil.GenerateTS(tsoutil.GenerateTimestamp(ph, uint64(tl)))) == nil {
				accepted++
			}
		}
		close(stop)
		wg.Wait()
		m.Resign()
		r.Count("reset_race_resets", int64(resets))
		r.Count("reset_race_resets_accepted", int64(accepted))
		resp := w.Responses()
		r.Count("reset_race_responses", int64(len(resp)))
		if p := tsochk.Check(resp); p != nil {
			r.Violation(p.Kind+":reset-race", p.What, map[string]interface{}{"problem": p, "save_interval": saveIv.String(), "resets": resets, "accepted": accepted})
		}
		w.Close()
		r.Eval(1)
		r.Distinct("reset-race|" + saveIv.String())
	}
}

func probeFailpoints(e *etcdx.Etcd) bool {
	w, err := tsow.NewWorld(e, "/c01/probe_", 1, 50*time.Millisecond, 50*time.Millisecond)
	if err != nil {
		return false
	}
	defer w.Close()
	m := w.Members[0]
	if m.Campaign(false) != nil {
		return false
	}
	tsow.SetClock(tsow.ClockFastSync)
	err = m.Alloc.Initialize(0)
	tsow.SetClock(tsow.ClockNormal)
	if err != nil {
		return false
	}
	ts, err := w.TSO(0, m, 1, 0)
	m.Resign()
	return err == nil && ts.Physical-time.Now().UnixNano()/int64(time.Millisecond) > 30*60*1000
}

func main() {
	r := ev.New("C01", "exploration")
	r.Rule("level A: worlds of 2-3 members x 10-40 epochs; per epoch 8-32 requesters with counts mostly small, sometimes thousands, rarely from {0,2^17,2^18-1,2^18,2^20}, an updater at {1,5,50 ms, paused} with a clock mode, and one event from {SetTSO (7 kinds), allocator reset+init, hand-over, crash+restart, update burst}; every third world ends with a natural lease expiry; distinct = (event, updater interval, clock mode, members, save interval) per epoch plus the sequence per world. level B: real server, 6 gRPC Tso streams + 4 pd-client goroutines with leader resignations and admin ResetTS; distinct = event list. local allocator: real server with Local TSO (zone dc-1, suffix bits >= 1), 4 goroutines asking the dc-1 allocator for counts from {1,7,40000,65536,100000,131071,131072,200000}")
	r.Assume("clock offsets are the repository's failpoints on a failpoint-ctl-enabled scratch copy (coverage key clock_failpoints_effective)")
	r.Assume("a crashed member generation's responses returned after the crash tick are treated as lost (not in the history); a lease is revoked externally only together with dropping the member's objects")
	rng := rand.New(rand.NewSource(r.ShardSeed()))
	srv.Quiet()
	e, err := etcdx.Start()
	if err != nil {
		r.Inconclusive("etcd: %v", err)
		r.Finish()
	}
	fpLive := probeFailpoints(e)
	r.Set("clock_failpoints_effective", fpLive)
	edgePhase(r, e, rng)
	resetRacePhase(r, e, rng)
	nw := r.Pick(6, 30)
	for wi := 0; wi < nw; wi++ {
		levelA(r, e, rng, wi, fpLive)
	}
	e.Close()
	levelB(r, rng)
	if r.Violations() == 0 {
		localSuffixPhase(r, rng)
	}
	r.Floor(4)
	r.Finish()
}
