package main

import (
	"fmt"
	"math/rand"
	"sync"
	"time"

	"github.com/tikv/pd/server/config"
	"verif/harness/lib/ev"
	"verif/harness/lib/hist"
	"verif/harness/lib/srv"
	"verif/harness/lib/tsochk"
)

// localSuffixPhase: the statement speaks of "one timestamp allocator"; a Local TSO allocator is one
// too, and its responses carry a suffix in the low bits of the logical part (suffix bits >= 1), so
// the 18-bit field fills up 2^bits times sooner. A real single-member server with Local TSO enabled
// (zone dc-1) serves bursts of large counts through the allocator manager; the recorded responses
// of the dc-1 allocator are judged by the same offline oracles (18-bit field, disjoint ranges,
// real-time order).
func localSuffixPhase(r *ev.Run, rng *rand.Rand) {
	const dc = "dc-1"
	cfgs := srv.NewConfigs(1, func(i int, cfg *config.Config) {
		cfg.EnableLocalTSO = true
		if cfg.Labels == nil {
			cfg.Labels = map[string]string{}
		}
		cfg.Labels[config.ZoneLabel] = dc
	})
	m, err := srv.Start(cfgs[0])
	if err != nil {
		r.Inconclusive("local tso server start: %v", err)
		return
	}
	defer m.Close()
	if srv.WaitLeader([]*srv.Member{m}, 30*time.Second) == nil {
		r.Inconclusive("local tso server: no leader")
		return
	}
	tam := m.Srv.GetTSOAllocatorManager()
	ready := false
	for k := 0; k < 120 && !ready; k++ {
		tam.ClusterDCLocationChecker()
		if a, gerr := tam.GetAllocator(dc); gerr == nil && a.IsInitialize() {
			if _, herr := tam.HandleTSORequest(dc, 1); herr == nil {
				ready = true
				break
			}
		}
		time.Sleep(250 * time.Millisecond)
	}
	if !ready {
		// the allocator leader of the dc was not elected in time on this (loaded) machine: no verdict
		r.Count("local_allocator_not_ready", 1)
		return
	}
	var mu sync.Mutex
	var resp []tsochk.Resp
	counts := []uint32{1, 7, 40000, 100000, 131071, 131072, 65536, 200000}
	rounds := r.Pick(40, 400)
	var wg sync.WaitGroup
	for g := 0; g < 4; g++ {
		wg.Add(1)
		seed := rng.Int63()
		go func(g int, seed int64) {
			defer wg.Done()
			lr := rand.New(rand.NewSource(seed))
			for k := 0; k < rounds; k++ {
				c := counts[lr.Intn(len(counts))]
				call := hist.Tick()
				ts, herr := tam.HandleTSORequest(dc, c)
				o := tsochk.Resp{Client: g, DC: dc, Count: c, Physical: ts.Physical, Logical: ts.Logical, Bits: ts.SuffixBits, Call: call, Ret: hist.Tick()}
				if herr != nil {
					o.Err = herr.Error()
				}
				mu.Lock()
				resp = append(resp, o)
				mu.Unlock()
			}
		}(g, seed)
	}
	wg.Wait()
	okN, bits := 0, uint32(0)
	for _, o := range resp {
		if o.Err == "" {
			okN++
			bits = o.Bits
		}
	}
	r.Count("local_allocator_responses_granted", int64(okN))
	r.Set("local_allocator_suffix_bits", bits)
	if okN == 0 || bits == 0 {
		r.Count("local_allocator_without_suffix_bits", 1)
	}
	if p := tsochk.Check(resp); p != nil {
		r.Violation(p.Kind+":local-allocator", p.What, map[string]interface{}{"problem": p, "suffix_bits": bits})
	}
	r.Eval(1)
	r.Distinct(fmt.Sprintf("local-allocator|bits=%d", bits))
}
