#!/bin/bash
# Offline setup after a fresh restore: build failpoint-ctl and warm the build cache for all check binaries.
set -u
export GOFLAGS=-mod=mod GOPROXY=off GOSUMDB=off GOTOOLCHAIN=local
cd "$(dirname "$0")"
mkdir -p bin evidence replays work
(cd /repo && go build -o /verif/bin/failpoint-ctl github.com/pingcap/failpoint/failpoint-ctl) || echo "warning: failpoint-ctl not built"
cd harness
for d in c[0-9][0-9]; do
  [ -d "$d" ] || continue
  go build -race -tags verif -o ../bin/$d ./$d || echo "warning: $d did not build"
done
exit 0
